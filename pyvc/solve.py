"""Discharge of obligations: one SMT query per obligation, in a process pool."""
import multiprocessing as mp
import os
import subprocess
import tempfile
import time

import z3

from .core import pow_axioms, sum_axioms, POW, SUM

TIMEOUT_MS = int(os.environ.get("PYVC_TIMEOUT_MS", "20000"))


def to_smt2(ob, extra_axioms=()):
    s = z3.Solver()
    for h in ob.hyps:
        s.add(h)
    for a in extra_axioms:
        s.add(a)
    s.add(z3.Not(ob.goal))
    return s.to_smt2()


def _uses(ob, name):
    txt = ob._smt
    return name in txt


def _run(args):
    idx, smt, timeout_ms, seeds = args
    t0 = time.time()
    last = "unknown"
    reason = ""
    for k, seed in enumerate(seeds):
        s = z3.Solver()
        s.set("timeout", timeout_ms)
        if seed:
            s.set("random_seed", seed)
            z3.set_param("smt.random_seed", seed)
        try:
            s.from_string(smt)
            r = s.check()
        except z3.Z3Exception as e:   # pragma: no cover
            return idx, "error", str(e), (time.time() - t0) * 1000, "z3-5.1"
        if r == z3.unsat:
            return idx, "unsat", "", (time.time() - t0) * 1000, "z3-5.1" + (f"(seed {seed})" if seed else "")
        if r == z3.sat:
            try:
                m = s.model()
                txt = "\n".join(f"{d.name()} = {m[d]}" for d in m.decls() if d.arity() == 0)[:6000]
            except Exception:
                txt = ""
            return idx, "sat", txt, (time.time() - t0) * 1000, "z3-5.1"
        last = "unknown"
        reason = s.reason_unknown()
    return idx, last, reason, (time.time() - t0) * 1000, "z3-5.1"


def _cvc5(smt, timeout_s=20):
    with tempfile.NamedTemporaryFile("w", suffix=".smt2", delete=False) as f:
        f.write("(set-logic ALL)\n" + smt)
        path = f.name
    try:
        out = subprocess.run(["/usr/bin/cvc5", f"--tlimit={timeout_s * 1000}", path], capture_output=True, text=True, timeout=timeout_s + 5)
        r = out.stdout.strip().splitlines()[0] if out.stdout.strip() else "unknown"
    except Exception:
        r = "unknown"
    finally:
        os.unlink(path)
    return r


def discharge(obls, workers=None, timeout_ms=None, second_backend=False):
    """sets ob.status in {'unsat','sat','unknown','trivial','error'}"""
    timeout_ms = timeout_ms or TIMEOUT_MS
    workers = workers or min(16, os.cpu_count() or 4)
    todo = []
    pax, sax = None, None
    for i, ob in enumerate(obls):
        if ob.status == "trivial":
            ob.time_ms = 0.0
            ob.backend = "simplifier"
            continue
        g = z3.simplify(ob.goal)
        if z3.is_true(g):
            ob.status = "trivial"
            ob.time_ms = 0.0
            ob.backend = "simplifier"
            continue
        smt = to_smt2(ob)
        extra = []
        if "POW" in smt:
            pax = pax or pow_axioms()
            extra += pax
        if "SUM" in smt:
            sax = sax or sum_axioms()
            extra += sax
        if extra:
            smt = to_smt2(ob, extra)
        ob._smt = smt
        if ob.kind.startswith("canary"):
            todo.append((i, smt, 1500, (0,)))
        else:
            todo.append((i, smt, timeout_ms, (0, 7, 42)))
    if todo:
        if workers > 1 and len(todo) > 1:
            with mp.get_context("fork").Pool(min(workers, len(todo))) as pool:
                results = pool.map(_run, todo, chunksize=1)
        else:
            results = [_run(t) for t in todo]
        for idx, status, info, ms, backend in results:
            ob = obls[idx]
            ob.status = status
            ob.time_ms = ms
            ob.backend = backend
            ob.model = info
    if second_backend:
        for ob in obls:
            if ob.status == "unknown" and hasattr(ob, "_smt"):
                r = _cvc5(ob._smt)
                if r == "unsat":
                    ob.status = "unsat"
                    ob.backend = "cvc5-1.0.3"
    return obls
