"""Ghost file system / network model and the ASSUMED contracts of the OS and stdlib calls used by datasets/_base.py (C19).

File state: kind (0 absent, 1 partial/garbage, 2 complete) + content (String).  st.ghost['fs'] maps a *path key* (canonical
text of the path term) to that state; the first access to an unknown path creates a symbolic initial state, remembered in
st.ghost['fs0'].  ASSUMPTION A-paths: syntactically different path terms denote different files (in particular the
directory returned by TemporaryDirectory is fresh).  Every action that changes the file system is appended to
st.ghost['fs_actions'] (rely/guarantee check)."""
import ast

import z3

from .core import *
from . import lib as L
from .libcalls import libfn, method, LIBS, METHODS

SHA = z3.Function("SHA256HEX", z3.StringSort(), z3.StringSort())
NET = z3.Function("NET_PAYLOAD", z3.StringSort(), z3.IntSort(), z3.StringSort())      # (url, attempt number) -> bytes served
PARSE = z3.Function("PARSE_CSV", z3.StringSort(), z3.BoolSort(), z3.IntSort())         # (bytes, gzip) -> dataset identity
PICKLE = z3.Function("PICKLE", z3.IntSort(), z3.StringSort())
UNPICKLE = z3.Function("UNPICKLE", z3.StringSort(), z3.IntSort())
GOOD = z3.Function("VERIFIED_CACHE_CONTENT", z3.StringSort(), z3.StringSort(), z3.BoolSort(), z3.BoolSort())   # (content, checksum, gzip)
GOODDATA = z3.Function("VERIFIED_DATA", z3.IntSort(), z3.StringSort(), z3.BoolSort(), z3.BoolSort())


def axioms():
    d = z3.Int("od")
    c, k = z3.Strings("oc ok")
    g = z3.Bool("og")
    return [
        z3.ForAll([d], UNPICKLE(PICKLE(d)) == d, patterns=[PICKLE(d)]),                         # pickle round trip
        # definition of "verified": content produced by parsing bytes whose SHA-256 is the pinned checksum
        z3.ForAll([c, k, g], z3.Implies(SHA(c) == k, z3.And(GOODDATA(PARSE(c, g), k, g), GOOD(PICKLE(PARSE(c, g)), k, g))),
                  patterns=[z3.MultiPattern(PARSE(c, g), SHA(c), GOODDATA(PARSE(c, g), k, g))]),
        z3.ForAll([c, k, g], z3.Implies(GOOD(c, k, g), GOODDATA(UNPICKLE(c), k, g)), patterns=[GOOD(c, k, g)]),
    ]


class FState:
    def __init__(self, kind, content):
        self.kind = kind
        self.content = content


def key_of(p):
    if isinstance(p, StrV):
        return p.s if p.concrete else z3.simplify(p.term()).sexpr()
    raise EngineError(f"path value {p}")


def fs_get(st, p):
    fs = st.ghost.setdefault("fs", {})
    k = key_of(p)
    if k not in fs:
        kind = z3.Int(fresh_name("fkind"))
        st.assume(z3.And(kind >= 0, kind <= 2))
        fs[k] = FState(kind, z3.String(fresh_name("fcontent")))
        st.ghost.setdefault("fs0", {})[k] = fs[k]
    return fs[k]


def fs_set(st, p, state, action):
    fs = st.ghost.setdefault("fs", {})
    fs_get(st, p)
    fs[key_of(p)] = state
    st.ghost.setdefault("fs_actions", []).append((action, key_of(p), state))


def net_calls(st):
    return st.ghost.get("net_calls", z3.IntVal(0))


# ------------------------------------------------------------------------------ os.path / os

@libfn("os.path.exists", "posixpath.exists")
def _exists(I, st, pos, kws, node):
    return [(st, Num(fs_get(st, pos[0]).kind != 0, "bool"))]


@libfn("os.rename")
def _rename(I, st, pos, kws, node):
    """ASSUMED (POSIX): rename is atomic - either it raises OSError and nothing changed, or dst now is what src was"""
    src, dst = pos
    s0 = fs_get(st, src)
    fs_get(st, dst)
    res = []
    fail = I.fork(st)
    res.append((fail, Exc("OSError", "rename failed (no effect)", I.where(node))))
    excs, ok = I.may_raise(st, s0.kind == 0, "FileNotFoundError", "rename: source missing", I.where(node))
    res.extend(excs)
    if ok is not None:
        ok.ghost.setdefault("fs_actions", []).append(("rename", key_of(src), key_of(dst), s0))
        ok.ghost["fs"][key_of(dst)] = s0
        ok.ghost["fs"][key_of(src)] = FState(z3.IntVal(0), z3.StringVal(""))
        res.append((ok, NONE))
    return res


@libfn("urllib.request.urlretrieve")
def _urlretrieve(I, st, pos, kws, node):
    """ASSUMED: either the call returns and the target is a complete file with whatever the server sent, or it raises
    (URLError, TimeoutError or anything else) leaving the target absent or partial.  Every call is one network access."""
    url, path = pos
    n = net_calls(st)
    res = []
    for cls in ("URLError", "TimeoutError", "Exception"):
        bad = I.fork(st)
        bad.ghost["net_calls"] = n + 1
        kind = z3.Int(fresh_name("fkind"))
        bad.assume(z3.And(kind >= 0, kind <= 1))
        fs_set(bad, path, FState(kind, z3.String(fresh_name("partial"))), "write")
        res.append((bad, Exc(cls, "download failed", I.where(node))))
    st.ghost["net_calls"] = n + 1
    fs_set(st, path, FState(z3.IntVal(2), NET(url.term(), n)), "write")
    res.append((st, NONE))
    return res


# ------------------------------------------------------------------------------ files, hashing

@libfn("builtins.open")
def _open(I, st, pos, kws, node):
    path = pos[0]
    mode = pos[1] if len(pos) > 1 else kws.get("mode", StrV("r"))
    f = fs_get(st, path)
    if mode.s in ("rb", "r"):
        excs, ok = I.may_raise(st, f.kind == 0, "FileNotFoundError", "open: no such file", I.where(node))
        res = list(excs)
        if ok is not None:
            res.append((ok, ok.alloc(ObjVal("ext:file", dict(path=path, mode=mode, pos=Num(z3.IntVal(0), "int"), content=StrV(f.content), kind=Num(f.kind, "int"))))))
        return res
    if mode.s == "wb":
        # creating/truncating: from now on the file is partial until a writer completes it
        bad = I.fork(st)
        fs_set(st, path, FState(z3.IntVal(1), z3.StringVal("")), "write")
        return [(bad, Exc("OSError", "open for writing failed", I.where(node))),
                (st, st.alloc(ObjVal("ext:file", dict(path=path, mode=mode, pos=Num(z3.IntVal(0), "int"), content=StrV(""), kind=Num(z3.IntVal(1), "int")))))]
    raise EngineError(f"open mode {mode}")


@method("file.__enter__")
def _file_enter(I, st, selfv, pos, kws, node):
    return [(st, selfv)]


def _file_exit(I, st, cm, ctl, node):
    """closing a file opened for writing flushes what was written: only now is the file complete"""
    o = st.heap[cm.id]
    if o.fields["mode"].s == "wb" and "pending" in o.fields:
        fs_set(st, o.fields["path"], FState(z3.IntVal(2), o.fields["pending"].term()), "write")
    return [(st, ctl)]


METHODS["file.__exit__"] = _file_exit


@method("file.read")
def _file_read(I, st, selfv, pos, kws, node):
    """ASSUMED: read(n) returns the next 1..n bytes, and b'' only at end of file"""
    o = st.heap[selfv.id]
    n = to_int(pos[0])
    content = o.fields["content"].term()
    p = o.fields["pos"].t
    ln = z3.Int(fresh_name("chunk"))
    rem = z3.Length(content) - p
    st.assume(z3.And(ln >= 0, ln <= rem, ln <= n, z3.Implies(z3.And(rem > 0, n > 0), ln > 0)))
    chunk = z3.SubString(content, p, ln)
    flds = dict(o.fields)
    flds["pos"] = Num(p + ln, "int")
    st.heap[selfv.id] = ObjVal(o.cls, flds)
    return [(st, StrV(chunk))]


@libfn("hashlib.sha256")
def _sha256_new(I, st, pos, kws, node):
    return [(st, st.alloc(ObjVal("ext:sha256", dict(acc=StrV("")))))]


@method("sha256.update")
def _sha_update(I, st, selfv, pos, kws, node):
    o = st.heap[selfv.id]
    acc = o.fields["acc"]
    st.heap[selfv.id] = ObjVal(o.cls, dict(acc=StrV(z3.Concat(acc.term(), pos[0].term()))))
    return [(st, NONE)]


@method("sha256.hexdigest")
def _sha_hex(I, st, selfv, pos, kws, node):
    """ASSUMED: SHA-256 is a function of the bytes fed (collision-freeness is what makes 'checksum equal' mean 'same data')"""
    return [(st, StrV(SHA(st.heap[selfv.id].fields["acc"].term())))]


# ------------------------------------------------------------------------------ parsing / pickling

@libfn("gzip.GzipFile")
def _gzipfile(I, st, pos, kws, node):
    p = kws.get("filename", pos[0] if pos else None)
    return [(st, st.alloc(ObjVal("ext:gzip", dict(path=p))))]


def np_loadtxt(I, st, pos, kws, node):
    """ASSUMED: loadtxt parses the complete content of the file (a function of the bytes and of the gzip flag), or raises"""
    src = pos[0]
    gz = False
    if isinstance(src, Ref) and isinstance(st.heap.get(src.id), ObjVal) and st.heap[src.id].cls == "ext:gzip":
        gz = True
        src = st.heap[src.id].fields["path"]
    f = fs_get(st, src)
    res = []
    bad = I.fork(st)
    res.append((bad, Exc("ValueError", "loadtxt: malformed content", I.where(node))))
    excs, ok = I.may_raise(st, f.kind != 2, "OSError", "loadtxt: file missing or incomplete", I.where(node))
    res.extend(excs)
    if ok is not None:
        r, c = z3.Int(fresh_name("rows")), z3.Int(fresh_name("cols"))
        ok.assume(z3.And(r >= 0, c >= 0))
        Fn = z3.Function(fresh_name("data"), z3.IntSort(), z3.IntSort(), z3.RealSort())
        ref = ok.alloc(Seq2Val("real", r, c, lambda a, b: Num(Fn(a, b), "real")))
        ok.heap[ref.id].data_id = PARSE(f.content, z3.BoolVal(gz))
        res.append((ok, ref))
    return res


@libfn("pickle.dump")
def _pickle_dump(I, st, pos, kws, node):
    """ASSUMED: dump writes the pickle into the (buffered) file object or raises midway.  The file on disk is complete only
    once the file object is CLOSED: immediately after the statement when the file object is an unreferenced temporary
    (`pickle.dump(obj, open(p, 'wb'))`, CPython reference counting), otherwise at close() / the end of its with-block."""
    obj, fobj = pos
    fo = st.heap[fobj.id]
    path = fo.fields["path"]
    did = getattr(st.heap.get(obj.id), "data_id", None) if isinstance(obj, Ref) else None
    if did is None:
        raise EngineError("pickle.dump of a value without data identity")
    bad = I.fork(st)
    fs_set(bad, path, FState(z3.IntVal(1), z3.String(fresh_name("partial"))), "write")
    temporary = len(node.args) > 1 and isinstance(node.args[1], ast.Call)
    if temporary:
        fs_set(st, path, FState(z3.IntVal(2), PICKLE(did)), "write")
    else:
        flds = dict(fo.fields)
        flds["pending"] = StrV(PICKLE(did))
        st.heap[fobj.id] = ObjVal(fo.cls, flds)
        fs_set(st, path, FState(z3.IntVal(1), z3.String(fresh_name("buffered"))), "write")
    return [(bad, Exc("OSError", "pickle.dump failed midway", I.where(node))), (st, NONE)]


@libfn("pickle.load")
def _pickle_load(I, st, pos, kws, node):
    """ASSUMED: load of a complete file returns unpickle(content); anything else raises"""
    fo = st.heap[pos[0].id]
    kind, content = fo.fields["kind"].t, fo.fields["content"].term()
    excs, ok = I.may_raise(st, kind != 2, "UnpicklingError", "truncated pickle", I.where(node))
    res = list(excs)
    if ok is not None:
        r, c = z3.Int(fresh_name("rows")), z3.Int(fresh_name("cols"))
        ok.assume(z3.And(r >= 0, c >= 0))
        Fn = z3.Function(fresh_name("data"), z3.IntSort(), z3.IntSort(), z3.RealSort())
        ref = ok.alloc(Seq2Val("real", r, c, lambda a, b: Num(Fn(a, b), "real")))
        ok.heap[ref.id].data_id = UNPICKLE(content)
        res.append((ok, ref))
    return res


# ------------------------------------------------------------------------------ TemporaryDirectory

@libfn("tempfile.TemporaryDirectory")
def _tmpdir(I, st, pos, kws, node):
    """ASSUMED: a fresh directory below `dir`, removed with everything in it when the with-block is left on any edge"""
    d = kws.get("dir")
    name = z3.String(fresh_name("tmpdir"))
    st.ghost.setdefault("tmpdirs", []).append(name.sexpr())
    return [(st, st.alloc(ObjVal("ext:tmpdir", dict(name=StrV(name), parent=d))))]


@method("tmpdir.__enter__")
def _tmpdir_enter(I, st, selfv, pos, kws, node):
    return [(st, st.heap[selfv.id].fields["name"])]


def _tmpdir_exit(I, st, cm, ctl, node):
    name = st.heap[cm.id].fields["name"].term().sexpr()
    fs = st.ghost.setdefault("fs", {})
    for k in list(fs):
        if name in k:
            fs[k] = FState(z3.IntVal(0), z3.StringVal(""))
    st.ghost.setdefault("fs_actions", []).append(("rmtree", name))
    return [(st, ctl)]


METHODS["tmpdir.__exit__"] = _tmpdir_exit
