"""Discharge of obligations: one SMT query per obligation, in a process pool."""
import multiprocessing as mp
import os
import subprocess
import tempfile
import time

import z3

from .core import pow_axioms, sum_axioms, sum_axioms_nonrecursive, POW, SUM

TIMEOUT_MS = int(os.environ.get("PYVC_TIMEOUT_MS", "20000"))


GLOBAL_FUNS = {"SUM", "POW", "MINF", "MAXF", "ARGMIN", "ARGMAX", "STD", "MEAN", "IDXOF"}


def symbols(f, limit=4000):
    out, seen, stack, n = set(), set(), [f], 0
    while stack and n < limit:
        x = stack.pop()
        if x.get_id() in seen:
            continue
        seen.add(x.get_id())
        n += 1
        if z3.is_quantifier(x):
            stack.append(x.body())
        elif z3.is_app(x):
            d = x.decl()
            if d.kind() == z3.Z3_OP_UNINTERPRETED and d.name() not in GLOBAL_FUNS:
                out.add(d.name())
            stack.extend(x.children())
    return out


def _defines(h):
    """if h is a definitional axiom (forall k. A[k] == body) or (c == term) return the defined symbol"""
    if z3.is_quantifier(h) and h.is_forall() and h.num_vars() == 1:
        b = h.body()
        if z3.is_eq(b):
            l = b.arg(0)
            if z3.is_app(l) and l.decl().kind() == z3.Z3_OP_SELECT and z3.is_const(l.arg(0)) and z3.is_var(l.arg(1)):
                return l.arg(0).decl().name()
    if z3.is_eq(h) and z3.is_const(h.arg(0)) and h.arg(0).decl().kind() == z3.Z3_OP_UNINTERPRETED and "!" in h.arg(0).decl().name():
        return h.arg(0).decl().name()
    return None


def relevant_hyps(ob, mode):
    """hypothesis selection (dropping hypotheses is sound: it only weakens the query).
    `mode` rounds of closure: a hypothesis is kept when it shares a *rare* symbol (one that occurs in few hypotheses) with the
    goal or with a hypothesis kept in an earlier round; definitions of kept symbols are always followed; small quantifier-free
    facts (bounds, lengths, branch conditions) are always kept."""
    hyps = list(ob.hyps)
    syms = [symbols(h) for h in hyps]
    count = {}
    for ss in syms:
        for x in ss:
            count[x] = count.get(x, 0) + 1
    common = {x for x, c in count.items() if c > max(8, 0.3 * len(hyps))}
    defs = {}
    for i, h in enumerate(hyps):
        d = _defines(h)
        if d is not None:
            defs.setdefault(d, []).append(i)
    S = symbols(ob.goal) - common
    keep = set()
    for _round in range(mode):
        new = set()
        for i, ss in enumerate(syms):
            if i not in keep and (ss - common) & S:
                new.add(i)
        for x in list(S):
            for i in defs.get(x, []):
                if i not in keep:
                    new.add(i)
        if not new:
            break
        keep |= new
        for i in new:
            S |= syms[i] - common
    for i, h in enumerate(hyps):
        if i in keep:
            continue
        if not z3.is_quantifier(h) and len(syms[i]) <= 4:
            t = h.sexpr()
            if len(t) < 600 and "forall" not in t and "exists" not in t:
                keep.add(i)
    return [hyps[i] for i in sorted(keep)]


def definition_hyps(ob):
    """only the definitional axioms reachable from the goal's symbols (transitively) + small quantifier-free facts"""
    hyps = list(ob.hyps)
    syms = [symbols(h) for h in hyps]
    defs = {}
    for i, h in enumerate(hyps):
        d = _defines(h)
        if d is not None:
            defs.setdefault(d, []).append(i)
    S = set(symbols(ob.goal))
    keep = set()
    work = list(S)
    while work:
        x = work.pop()
        for i in defs.get(x, []):
            if i not in keep:
                keep.add(i)
                for y in syms[i]:
                    if y not in S:
                        S.add(y)
                        work.append(y)
    for i, h in enumerate(hyps):
        if i not in keep and not z3.is_quantifier(h) and len(syms[i]) <= 4:
            t = h.sexpr()
            if len(t) < 600 and "forall" not in t and "exists" not in t:
                keep.add(i)
    return [hyps[i] for i in sorted(keep)]


def to_smt2(ob, extra_axioms=(), hyps=None):
    s = z3.Solver()
    for h in (ob.hyps if hyps is None else hyps):
        s.add(h)
    for a in extra_axioms:
        s.add(a)
    s.add(z3.Not(ob.goal))
    return s.to_smt2()


def _uses(ob, name):
    txt = ob._smt
    return name in txt


Z3_CLI = os.environ.get("PYVC_Z3", "z3-new")
SCHEDULE = (("defs", 0, 3), ("rel2", 0, 4), ("all", 0, 6), ("rel1", 7, 5))       # first pass: everything in parallel, short budgets
# (hypothesis selection, random seed, hard wall-clock seconds); "relN" = relevance closure of depth N (sound weakening)


# second pass: only what is still undecided (at most FAIL_CAP obligations per clause), few at a time, long budgets
RETRY_SCHEDULE = (("all", 0, 20), ("defs", 7, 10), ("rel3", 7, 8), ("all", 42, 15), ("rel2", 99, 12), ("rel1", 3, 20), ("all", 3, 45))
FALSE_GOAL_SCHEDULE = (("all", 0, 4),)      # `pc => False` (an exceptional edge that must be unreachable): quick, a refutation needs a model anyway


def _run(args):
    """one obligation: z3 CLI in a subprocess (hard timeout), escalating schedule of seeds/budgets"""
    idx, smts, timeout_ms, seeds = args
    t0 = time.time()
    sched = SCHEDULE if len(seeds) > 1 else (("all", 0, max(1, timeout_ms // 1000)),)
    if seeds == "retry":
        sched = RETRY_SCHEDULE
    if seeds == "false-goal":
        sched = FALSE_GOAL_SCHEDULE
    paths = {}
    for k, smt in smts.items():
        fd, pth = tempfile.mkstemp(suffix=".smt2", prefix="pyvc_")
        with os.fdopen(fd, "w") as f:
            f.write(smt)
        paths[k] = pth
    last, info = "unknown", ""
    try:
        for sel, seed, secs in sched:
            if sel not in paths:
                continue
            path = paths[sel]
            cmd = [Z3_CLI, f"-T:{secs}", f"smt.random_seed={seed}", f"sat.random_seed={seed}", path]
            try:
                out = subprocess.run(cmd, capture_output=True, text=True, timeout=secs + 5).stdout
            except subprocess.TimeoutExpired:
                out = "timeout"
            first = out.strip().splitlines()[0].strip() if out.strip() else "unknown"
            if first == "unsat":
                return idx, "unsat", "", (time.time() - t0) * 1000, "z3-5.1" + (f"(seed {seed})" if seed else "") + ("" if sel == "all" else f"[{sel}]")
            if first == "sat" and sel != "all":
                continue                  # a model of a weakened query proves nothing
            if first == "sat":
                try:
                    m = subprocess.run([Z3_CLI, f"-T:{secs}", "-model", path], capture_output=True, text=True, timeout=secs + 5).stdout
                except subprocess.TimeoutExpired:
                    m = ""
                return idx, "sat", m[:6000], (time.time() - t0) * 1000, "z3-5.1"
            last, info = "unknown", first
    finally:
        for pth in paths.values():
            os.unlink(pth)
    return idx, last, info, (time.time() - t0) * 1000, "z3-5.1"


def _cvc5(smt, timeout_s=20):
    with tempfile.NamedTemporaryFile("w", suffix=".smt2", delete=False) as f:
        f.write("(set-logic ALL)\n" + smt)
        path = f.name
    try:
        out = subprocess.run(["/usr/bin/cvc5", f"--tlimit={timeout_s * 1000}", path], capture_output=True, text=True, timeout=timeout_s + 5)
        r = out.stdout.strip().splitlines()[0] if out.stdout.strip() else "unknown"
    except Exception:
        r = "unknown"
    finally:
        os.unlink(path)
    return r


class Rec:
    """picklable obligation record (SMT-LIB text instead of z3 terms)"""

    def __init__(self, ob, smts):
        self.name, self.kind, self.where, self.func, self.clause = ob.name, ob.kind, ob.where, ob.func, ob.clause
        self.status, self.time_ms, self.backend, self.model = ob.status, ob.time_ms, ob.backend, ob.model
        self.smts = smts
        self._smt = (smts or {}).get("all", "")
        self.nhyps = len(ob.hyps)
        self.false_goal = bool(z3.is_false(z3.simplify(ob.goal))) if smts is not None else False
        import hashlib
        self.h = hashlib.sha256(self._smt.encode()).hexdigest()[:24] if smts else None

    def key(self):
        return f"{self.func}::{self.kind}::{self.clause}"


def prepare(ob):
    """z3 obligation -> Rec (done in the process that generated the obligation)"""
    if ob.status == "trivial" or z3.is_true(z3.simplify(ob.goal)):
        ob.status = "trivial"
        ob.time_ms = 0.0
        ob.backend = "simplifier"
        return Rec(ob, None)
    smt = to_smt2(ob)
    extra = []
    if "POW" in smt:
        extra += pow_axioms(mono="POW_MONO" in (getattr(ob, "lemmas", None) or []))
    if "SUM" in smt and ob.kind != "lemma":
        extra += sum_axioms_nonrecursive()
    lem = getattr(ob, "lemmas", None)
    if lem:
        from .lemmas import sum_lemma_axiom
        extra += [sum_lemma_axiom(n) for n in lem if n != "POW_MONO"]
        if "SUM" not in smt:
            extra += sum_axioms_nonrecursive()
    if "IDENT" in smt:
        from .core import ident_axiom
        extra.append(ident_axiom())
    if "PICKLE" in smt or "VERIFIED_" in smt or "SHA256HEX" in smt:
        from . import oslib
        extra += oslib.axioms()
    if extra:
        smt = to_smt2(ob, extra)
    smts = {"all": smt}
    if not ob.kind.startswith("canary") and len(ob.hyps) > 12 and ob.kind != "lemma":
        for d in (1, 2, 3):
            smts[f"rel{d}"] = to_smt2(ob, extra, hyps=relevant_hyps(ob, d))
        smts["defs"] = to_smt2(ob, extra, hyps=definition_hyps(ob))
    return Rec(ob, smts)


_FAILED_KEYS = {}
FAIL_CAP = 2      # after this many undischarged obligations of one clause, further ones of that clause are not attempted


def _run_capped(args):
    idx, smts, timeout_ms, seeds, key = args
    if key is not None and _FAILED_KEYS.get(key, 0) >= FAIL_CAP:
        return idx, "unknown", "not attempted: the same clause already failed %d times in this run" % FAIL_CAP, 0.0, "skipped"
    r = _run((idx, smts, timeout_ms, seeds))
    if key is not None and r[1] != "unsat":
        _FAILED_KEYS[key] = _FAILED_KEYS.get(key, 0) + 1
    return r


def discharge_records(recs, workers=None, timeout_ms=None):
    timeout_ms = timeout_ms or TIMEOUT_MS
    workers = workers or min(14, os.cpu_count() or 4)
    _FAILED_KEYS.clear()
    todo = []
    for i, r in enumerate(recs):
        if r.status is not None:
            continue          # already decided (trivial, or decided by concrete execution)
        if r.kind.startswith("canary"):
            todo.append((i, r.smts, 1500, (0,), None))
        elif getattr(r, "false_goal", False):
            todo.append((i, r.smts, timeout_ms, "false-goal", r.key()))
        else:
            todo.append((i, r.smts, timeout_ms, (0, 7, 42), r.key()))
    if todo:
        from concurrent.futures import ThreadPoolExecutor
        # round-robin over the clauses: the first tasks started belong to different clauses, so that a failing clause is
        # recognised after its first obligations and the remaining ones of that clause are not attempted (FAIL_CAP)
        groups = {}
        for t in todo:
            groups.setdefault(t[4], []).append(t)
        order = []
        while any(groups.values()):
            for k in list(groups):
                if groups[k]:
                    order.append(groups[k].pop(0))
        todo = order
        with ThreadPoolExecutor(max_workers=min(workers, len(todo))) as pool:
            results = list(pool.map(_run_capped, todo))
        for idx, status, info, ms, backend in results:
            r = recs[idx]
            r.status, r.time_ms, r.backend, r.model = status, ms, backend, info
        # second chance for the undecided ones, without contention (verdicts must not flip under load)
        again = [(i, recs[i].smts, timeout_ms, "retry") for i, r in enumerate(recs)
                 if r.status == "unknown" and not r.kind.startswith("canary") and r.backend != "skipped"
                 and not getattr(r, "false_goal", False)]
        # retry at most a few per clause
        per = {}
        again2 = []
        for a in again:
            k = recs[a[0]].key()
            per[k] = per.get(k, 0) + 1
            if per[k] <= FAIL_CAP:
                again2.append(a)
        again = again2
        if again:
            with ThreadPoolExecutor(max_workers=min(8, len(again))) as pool:
                results = list(pool.map(_run, again))
            for idx, status, info, ms, backend in results:
                r = recs[idx]
                r.time_ms = (r.time_ms or 0) + ms
                if status != "unknown":
                    r.status, r.backend, r.model = status, backend + "(retry)", info
    return recs


def discharge(obls, workers=None, timeout_ms=None, second_backend=False):
    """z3 obligations -> statuses (developer tools; the check CLI prepares records in the generating process)"""
    recs = [prepare(o) for o in obls]
    discharge_records(recs, workers=workers, timeout_ms=timeout_ms)
    for o, r in zip(obls, recs):
        o.status, o.time_ms, o.backend, o.model = r.status, r.time_ms, r.backend, r.model
        o._smt = r._smt
    return obls
