"""Run-time only (bounded stand-in) readings for numerics.py clauses; never used by the verifier."""
import warnings

import numpy as np


def smoothing_ok(x, y, s, result):
    """C16: summed squared deviation at the samples <= s (0.1 % solver tolerance); runs in which FITPACK reports
    non-convergence are discarded, not judged (the property says so)"""
    from traffic_weaver.process import spline_smooth
    x = np.asarray(x, dtype=float)
    y = np.asarray(y, dtype=float)
    with warnings.catch_warnings(record=True) as w:
        warnings.simplefilter("always")
        again = spline_smooth(x, y, s)
    if any("iterations" in str(i.message) or "fp=s" in str(i.message) or "s too small" in str(i.message) or "ier=" in str(i.message) for i in w):
        return True
    target = len(y) * float(y.std()) ** 2 if s is None else s
    dev = float(((np.asarray(result(x), dtype=float) - y) ** 2).sum())
    return dev <= target * 1.001 + 1e-9 * (1 + float((y ** 2).sum()))
