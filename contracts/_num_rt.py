"""Run-time only (bounded stand-in) readings for numerics.py clauses; never used by the verifier."""
import warnings

import numpy as np


def smoothing_ok(x, y, s, result):
    """C16: summed squared deviation at the samples <= s (0.1 % solver tolerance); runs in which FITPACK reports
    non-convergence are discarded, not judged (the property says so)"""
    from traffic_weaver.process import spline_smooth
    x = np.asarray(x, dtype=float)
    y = np.asarray(y, dtype=float)
    with warnings.catch_warnings(record=True) as w:
        warnings.simplefilter("always")
        again = spline_smooth(x, y, s)
    if any("iterations" in str(i.message) or "fp=s" in str(i.message) or "s too small" in str(i.message) or "ier=" in str(i.message) for i in w):
        return True
    target = len(y) * float(y.std()) ** 2 if s is None else s
    dev = float(((np.asarray(result(x), dtype=float) - y) ** 2).sum())
    return dev <= target * 1.001 + 1e-9 * (1 + float((y ** 2).sum()))


def affine_reproduced(x, y, new_x, method, result):
    """C13: every method except 'constant' reproduces affine data (to rounding) - inside the data range for all three, and for
    the two spline methods (which continue their end pieces) also beyond it; 'linear' (numpy.interp) holds the end values there"""
    if method not in ('linear', 'cubic', 'spline'):
        return True
    x, y, new_x = (np.asarray(v, dtype=float) for v in (x, y, new_x))
    a = (y[-1] - y[0]) / (x[-1] - x[0])
    b = y[0] - a * x[0]
    scale = 1.0 + float(np.max(np.abs(y))) + abs(a) * float(max(abs(new_x[0] - x[0]), abs(new_x[-1] - x[0]), x[-1] - x[0]))
    if not np.allclose(y, a * x + b, rtol=0, atol=1e-12 * scale):
        return True                       # not affine data: nothing to check
    sel = ((new_x >= x[0]) & (new_x <= x[-1])) if method == 'linear' else np.ones(len(new_x), dtype=bool)
    r = np.asarray(result, dtype=float)
    return bool(np.all(np.abs(r[sel] - (a * new_x + b)[sel]) <= 1e-6 * scale))
