"""Weaver facade: class invariant (C09), two-state contracts of every mutator (C08, C11, C12, C14), exceptional
postconditions with untouched state (C20).

History quantifier: the class invariant `wv_wf` is established by the constructor and preserved by every method under
its precondition; `in_sync` ("not reshaped yet": working series == reference series) is preserved by each of the ten
domain operations and the reference is left unchanged by each reshaping operation.  Induction over the operation
sequence is the invariant rule itself - no bound on the length of the history.
"""
from pyvc.spec import *
import contracts._weaver_rt as WRT
import contracts._c02_rt as C02RT      # run-time-only readings used by `assumed=` (bounded) clauses

W = 'traffic_weaver.weaver.Weaver'

class_shape(W, x=Seq(Real), y=Seq(Real), original_x=Seq(Real), original_y=Seq(Real),
            reference_x=Seq(Real), reference_y=Seq(Real), x_scale=Real, y_scale=Real)


# --------------------------------------------------------------------------- predicates

def same(a, b):
    return len(a) == len(b) and forall(range(len(a)), lambda i: a[i] == b[i])


def series_ok(x, y):
    """a pair of equal-length one-dimensional NumPy arrays with strictly increasing abscissae"""
    return is_ndarray(x) and is_ndarray(y) and len(x) == len(y) and len(x) >= 1 and strictly_increasing(x)


@class_invariant(W)
def wv_wf(self):
    return (series_ok(self.x, self.y) and series_ok(self.reference_x, self.reference_y)
            and series_ok(self.original_x, self.original_y))


def in_sync(w):
    """the series has not been reshaped: working and reference series are identical"""
    return same(w.x, w.reference_x) and same(w.y, w.reference_y)


def ref_same(old, new):
    return same(new.reference_x, old.reference_x) and same(new.reference_y, old.reference_y)


def orig_same(old, new):
    return same(new.original_x, old.original_x) and same(new.original_y, old.original_y)


def work_x_same(old, new):
    return same(new.x, old.x)


def work_y_same(old, new):
    return same(new.y, old.y)


# ------------------------------------------------------------------------------ __init__

contract(W + '.__init__', params=dict(self=Obj(W), x=Opt(Seq(Real, kind='arraylike')), y=Seq(Real, kind='arraylike')),
         modifies=['self'], constructor=True)


@requires(W + '.__init__')
def init_pre(self, x, y):
    return len(y) >= 1 and (True if x is None else strictly_increasing(x))


@raises(W + '.__init__', 'ValueError')
def init_mismatch(self, x, y):
    """mismatched x/y lengths"""
    return False if x is None else len(x) != len(y)


def is_index_axis(a, n):
    return len(a) == n and forall(range(n), lambda i: a[i] == i)


@ensures(W + '.__init__')
def init_post(self, x, y, result):
    return ((is_index_axis(now(self).x, len(y)) if x is None else same(now(self).x, x))
            and same(now(self).y, y)
            and same(now(self).original_x, now(self).x) and same(now(self).original_y, y)
            and same(now(self).reference_x, now(self).x) and same(now(self).reference_y, y)
            and now(self).x_scale == 1 and now(self).y_scale == 1)


# ------------------------------------------------------------------------ from_2d_array

contract(W + '.from_2d_array', params=dict(xy=Union(Seq(Real), Seq2(Real))), returns=Obj(W))


@requires(W + '.from_2d_array')
def from2d_pre(xy):
    return (len(xy) >= 1 and forall(range(len(xy)), lambda i: forall(range(len(xy)), lambda j:
            implies(i < j, xy[i, 0] < xy[j, 0])))) if is_2d(xy) and ncols(xy) == 2 else True


@raises(W + '.from_2d_array', 'ValueError')
def from2d_bad_shape(xy):
    """a non (N, 2) array"""
    return not (is_2d(xy) and ncols(xy) == 2)


@ensures(W + '.from_2d_array')
def from2d_post(xy, result):
    return (len(result.x) == len(xy) and len(result.y) == len(xy)
            and forall(range(len(xy)), lambda i: result.x[i] == xy[i, 0] and result.y[i] == xy[i, 1]))


# ------------------------------------------------------------------------------ getters

contract(W + '.get', params=dict(self=Obj(W)), returns=Tuple(Seq(Real), Seq(Real)))


@ensures(W + '.get')
def get_post(self, result):
    return same(result[0], self.x) and same(result[1], self.y)


contract(W + '.get_original', params=dict(self=Obj(W)), returns=Tuple(Seq(Real), Seq(Real)))


@ensures(W + '.get_original')
def get_original_post(self, result):
    return same(result[0], self.original_x) and same(result[1], self.original_y)


contract(W + '.get_reference', params=dict(self=Obj(W)), returns=Tuple(Seq(Real), Seq(Real)))


@ensures(W + '.get_reference')
def get_reference_post(self, result):
    return same(result[0], self.reference_x) and same(result[1], self.reference_y)


contract(W + '.__len__', params=dict(self=Obj(W)), returns=Int)


@ensures(W + '.__len__')
def len_post(self, result):
    return result == len(self.x)


# ---------------------------------------------------------------------- restore_original

contract(W + '.restore_original', params=dict(self=Obj(W)), modifies=['self'])


@ensures(W + '.restore_original')
def restore_working(self, result):
    return (same(now(self).x, self.original_x) and same(now(self).y, self.original_y) and orig_same(self, now(self)))


@ensures(W + '.restore_original')
def restore_like_new(self, result):
    """afterwards the object behaves like a newly constructed one on get_original(): a new object has
    reference == original == working series, and no method reads any other state"""
    return (same(now(self).reference_x, self.original_x) and same(now(self).reference_y, self.original_y))


# --------------------------------------------------------------------- append_one_sample

contract(W + '.append_one_sample', params=dict(self=Obj(W), make_periodic=Bool), modifies=['self'])


@requires(W + '.append_one_sample')
def append_pre(self, make_periodic):
    return len(self.x) >= 2 and len(self.reference_x) >= 2


def appended(x, y, nx, ny, make_periodic):
    return (len(nx) == len(x) + 1 and len(ny) == len(y) + 1
            and forall(range(len(x)), lambda i: nx[i] == x[i] and ny[i] == y[i])
            and eq(nx[len(x)], x[len(x) - 1] + (x[len(x) - 1] - x[len(x) - 2]))
            and ny[len(y)] == (y[0] if make_periodic else y[len(y) - 1]))


@ensures(W + '.append_one_sample')
def append_post(self, make_periodic, result):
    return (appended(self.x, self.y, now(self).x, now(self).y, make_periodic)
            and appended(self.reference_x, self.reference_y, now(self).reference_x, now(self).reference_y, make_periodic)
            and orig_same(self, now(self)))


@ensures(W + '.append_one_sample')
def append_keeps_sync(self, make_periodic, result):
    return implies(in_sync(self), in_sync(now(self)))


# ------------------------------------------------------------------------ slice_by_index

contract(W + '.slice_by_index', params=dict(self=Obj(W), start=Int, stop=Opt(Int), step=Int),
         returns=Tuple(Seq(Real), Seq(Real)))


@requires(W + '.slice_by_index')
def sbi_pre(self, start, stop, step):
    return step >= 1


@raises(W + '.slice_by_index', 'ValueError')
def sbi_out_of_range(self, start, stop, step):
    """out-of-range index bounds"""
    return start < 0 or (False if stop is None else stop > len(self.x))


def py_stop(n, stop):
    """Python's normalisation of a slice stop for a sequence of length n (stop <= n here)"""
    return n if stop is None else (stop if stop >= 0 else max(stop + n, 0))


def py_count(n, start, stop, step):
    """number of elements of range(start, py_stop, step) clipped to the sequence, start >= 0"""
    return 0 if min(py_stop(n, stop), n) <= min(start, n) else (min(py_stop(n, stop), n) - min(start, n) + step - 1) // step


@ensures(W + '.slice_by_index')
def sbi_post(self, start, stop, step, result):
    """agrees with Python slice semantics x[start:stop:step]"""
    return (len(result[0]) == py_count(len(self.x), start, stop, step) and len(result[1]) == len(result[0])
            and forall(range(len(result[0])), lambda i: result[0][i] == self.x[start + i * step]
                       and result[1][i] == self.y[start + i * step]))


# ------------------------------------------------------------------------ slice_by_value

contract(W + '.slice_by_value', params=dict(self=Obj(W), start=Opt(Real), stop=Opt(Real), step=Int),
         returns=Tuple(Seq(Real), Seq(Real)))


@requires(W + '.slice_by_value')
def sbv_pre(self, start, stop, step):
    return step >= 1


def is_sample(x, v):
    return exists(range(len(x)), lambda i: x[i] == v)


@raises(W + '.slice_by_value', 'ValueError')
def sbv_not_a_sample(self, start, stop, step):
    """a slicing value that is not a sample"""
    return ((False if start is None else not is_sample(self.x, start))
            or (False if stop is None else not is_sample(self.x, stop)))


def lo_bound(x, start):
    return x[0] if start is None else start


def hi_bound(x, stop):
    return x[len(x) - 1] if stop is None else stop


def sbv_first(x, start):
    return 0 if start is None else index_of(x, start)


def sbv_end(x, stop):
    return len(x) if stop is None else index_of(x, stop) + 1


@ensures(W + '.slice_by_value')
def sbv_post(self, start, stop, step, result):
    """precisely the samples with start <= x <= stop (every step-th of them); an omitted bound is the respective end.
    [a, b) with a = position of `start`, b = position of `stop` + 1 is exactly the index range of those samples."""
    return (forall(range(len(self.x)), lambda i:
                   iff(sbv_first(self.x, start) <= i and i < sbv_end(self.x, stop),
                       lo_bound(self.x, start) <= self.x[i] and self.x[i] <= hi_bound(self.x, stop)))
            and len(result[0]) == (max(sbv_end(self.x, stop) - sbv_first(self.x, start), 0) + step - 1) // step
            and len(result[1]) == len(result[0])
            and forall(range(len(result[0])), lambda i: result[0][i] == self.x[sbv_first(self.x, start) + i * step]
                       and result[1][i] == self.y[sbv_first(self.x, start) + i * step]))


# --------------------------------------------------------------------------- interpolate

contract(W + '.interpolate', params=dict(self=Obj(W), n=Opt(Int), new_x=Opt(Seq(Real, kind='arraylike')), method=Str,
                                         kwargs=Kwargs), modifies=['self'], generator='gen_interpolate')


@requires(W + '.interpolate')
def wint_pre(self, n, new_x, method, kwargs):
    return (len(self.x) >= 4
            and (True if n is None else n >= 2)
            and (True if new_x is None else (len(new_x) >= 2 and strictly_increasing(new_x))))


@raises(W + '.interpolate', 'ValueError')
def wint_rejected(self, n, new_x, method, kwargs):
    """neither n nor a grid; a grid with different end points; an unknown method"""
    return ((n is None and new_x is None)
            or (False if new_x is None else (new_x[0] != self.x[0] or new_x[len(new_x) - 1] != self.x[len(self.x) - 1]))
            or (method != 'linear' and method != 'constant' and method != 'cubic' and method != 'spline'))


@ensures(W + '.interpolate')
def wint_grid(self, n, new_x, method, kwargs, result):
    """interpolate(n): exactly n equally spaced points spanning the same range; explicit grid: that grid"""
    return ((len(now(self).x) == n and forall(range(n), lambda j:
             eq(now(self).x[j], self.x[0] + j * (self.x[len(self.x) - 1] - self.x[0]) / (n - 1))))
            if new_x is None else same(now(self).x, new_x))


@ensures(W + '.interpolate')
def wint_rest(self, n, new_x, method, kwargs, result):
    return len(now(self).y) == len(now(self).x) and ref_same(self, now(self)) and orig_same(self, now(self))


# ------------------------------------------------------------------------------- repeat

contract(W + '.repeat', params=dict(self=Obj(W), n=Int), modifies=['self'])


@requires(W + '.repeat')
def wrepeat_pre(self, n):
    return n >= 1 and len(self.x) >= 2 and len(self.reference_x) >= 2


def period(x):
    return (x[len(x) - 1] - x[0]) + (x[len(x) - 1] - x[len(x) - 2])


def repeated(x, y, nx, ny, r):
    """copy c = i div len is the input shifted by c periods; values tiled"""
    return (len(nx) == r * len(x) and len(ny) == r * len(y)
            and forall(range(r * len(x)), lambda i: eq(nx[i], x[i % len(x)] + (i // len(x)) * period(x)))
            and forall(range(r * len(y)), lambda i: ny[i] == y[i % len(y)]))


@ensures(W + '.repeat')
def wrepeat_post(self, n, result):
    return (repeated(self.x, self.y, now(self).x, now(self).y, n)
            and repeated(self.reference_x, self.reference_y, now(self).reference_x, now(self).reference_y, n)
            and orig_same(self, now(self)))


# -------------------------------------------------------------------------------- trend

contract(W + '.trend', params=dict(self=Obj(W), trend_func=Fn(1), normalized=Bool), modifies=['self'])


@requires(W + '.trend')
def wtrend_pre(self, trend_func, normalized):
    return implies(normalized, len(self.x) >= 2)


@ensures(W + '.trend')
def wtrend_post(self, trend_func, normalized, result):
    return (work_x_same(self, now(self)) and len(now(self).y) == len(self.y)
            and forall(range(len(self.y)), lambda i: eq(now(self).y[i], self.y[i] + trend_func(
                (self.x[i] / (self.x[len(self.x) - 1] - self.x[0])) if normalized else self.x[i])))
            and ref_same(self, now(self)) and orig_same(self, now(self)))


# ------------------------------------------------------------------- shift / scale

contract(W + '.shift_x', params=dict(self=Obj(W), shift=Real), modifies=['self'])


def shifted(a, na, s):
    return len(na) == len(a) and forall(range(len(a)), lambda i: eq(na[i], a[i] + s))


def scaled(a, na, c):
    return len(na) == len(a) and forall(range(len(a)), lambda i: eq(na[i], a[i] * c))


@ensures(W + '.shift_x')
def shift_x_post(self, shift, result):
    return (shifted(self.x, now(self).x, shift) and shifted(self.reference_x, now(self).reference_x, shift)
            and work_y_same(self, now(self)) and same(now(self).reference_y, self.reference_y) and orig_same(self, now(self)))


contract(W + '.shift_y', params=dict(self=Obj(W), shift=Real), modifies=['self'])


@ensures(W + '.shift_y')
def shift_y_post(self, shift, result):
    return (shifted(self.y, now(self).y, shift) and shifted(self.reference_y, now(self).reference_y, shift)
            and work_x_same(self, now(self)) and same(now(self).reference_x, self.reference_x) and orig_same(self, now(self)))


contract(W + '.scale_x', params=dict(self=Obj(W), scale=Real), modifies=['self'])


@requires(W + '.scale_x')
def scale_x_pre(self, scale):
    return scale > 0


@ensures(W + '.scale_x')
def scale_x_post(self, scale, result):
    return (scaled(self.x, now(self).x, scale) and scaled(self.reference_x, now(self).reference_x, scale)
            and work_y_same(self, now(self)) and same(now(self).reference_y, self.reference_y) and orig_same(self, now(self)))


contract(W + '.scale_y', params=dict(self=Obj(W), scale=Real), modifies=['self'])


@ensures(W + '.scale_y')
def scale_y_post(self, scale, result):
    return (scaled(self.y, now(self).y, scale) and scaled(self.reference_y, now(self).reference_y, scale)
            and work_x_same(self, now(self)) and same(now(self).reference_x, self.reference_x) and orig_same(self, now(self)))


@ensures(W + '.shift_x')
def shift_x_sync(self, shift, result):
    return implies(in_sync(self), in_sync(now(self)))


@ensures(W + '.shift_y')
def shift_y_sync(self, shift, result):
    return implies(in_sync(self), in_sync(now(self)))


@ensures(W + '.scale_x')
def scale_x_sync(self, scale, result):
    return implies(in_sync(self), in_sync(now(self)))


@ensures(W + '.scale_y')
def scale_y_sync(self, scale, result):
    return implies(in_sync(self), in_sync(now(self)))


# ------------------------------------------------------------------------ normalize_x/y

def normalized(a, na, lo, hi):
    """increasing affine map sending min(a) to lo and max(a) to hi"""
    return (len(na) == len(a)
            and forall(range(len(a)), lambda i: eq(na[i], (a[i] - min_of(a)) / (max_of(a) - min_of(a)) * (hi - lo) + lo)))


contract(W + '.normalize_x', params=dict(self=Obj(W), min_val=Real, max_val=Real), modifies=['self'])


@requires(W + '.normalize_x')
def normalize_x_pre(self, min_val, max_val):
    return min_val < max_val and len(self.x) >= 2 and len(self.reference_x) >= 2 and len(self.original_x) >= 2


@ensures(W + '.normalize_x')
def normalize_x_post(self, min_val, max_val, result):
    return (normalized(self.x, now(self).x, min_val, max_val)
            and normalized(self.reference_x, now(self).reference_x, min_val, max_val)
            and normalized(self.original_x, now(self).original_x, min_val, max_val)
            and work_y_same(self, now(self)) and same(now(self).reference_y, self.reference_y)
            and same(now(self).original_y, self.original_y))


@ensures(W + '.normalize_x')
def normalize_x_sync(self, min_val, max_val, result):
    return implies(in_sync(self), in_sync(now(self)))


contract(W + '.normalize_y', params=dict(self=Obj(W), min_val=Real, max_val=Real), modifies=['self'])


def not_constant(a):
    return exists(range(len(a)), lambda i: a[i] != a[0])


@requires(W + '.normalize_y')
def normalize_y_pre(self, min_val, max_val):
    return min_val < max_val and not_constant(self.y) and not_constant(self.reference_y) and not_constant(self.original_y)


@ensures(W + '.normalize_y')
def normalize_y_post(self, min_val, max_val, result):
    return (normalized(self.y, now(self).y, min_val, max_val)
            and normalized(self.reference_y, now(self).reference_y, min_val, max_val)
            and normalized(self.original_y, now(self).original_y, min_val, max_val)
            and work_x_same(self, now(self)) and same(now(self).reference_x, self.reference_x)
            and same(now(self).original_x, self.original_x))


@ensures(W + '.normalize_y')
def normalize_y_sync(self, min_val, max_val, result):
    return implies(in_sync(self), in_sync(now(self)))


# --------------------------------------------------------------------- truncate_by_index

contract(W + '.truncate_by_index', params=dict(self=Obj(W), start=Int, stop=Opt(Int)), modifies=['self'])


@requires(W + '.truncate_by_index')
def tbi_pre(self, start, stop):
    """valid use: a non-empty cut that exists in both series"""
    return (len(self.reference_x) == len(self.x)
            and start < (len(self.x) if stop is None else (stop if stop >= 0 else stop + len(self.x))))


@raises(W + '.truncate_by_index', 'ValueError')
def tbi_out_of_range(self, start, stop):
    return start < 0 or (False if stop is None else stop > len(self.x))


def cut(a, na, start, stop):
    return (len(na) == py_stop(len(a), stop) - start
            and forall(range(len(na)), lambda i: na[i] == a[start + i]))


@ensures(W + '.truncate_by_index')
def tbi_post(self, start, stop, result):
    return (cut(self.x, now(self).x, start, stop) and cut(self.y, now(self).y, start, stop)
            and cut(self.reference_x, now(self).reference_x, start, stop)
            and cut(self.reference_y, now(self).reference_y, start, stop)
            and orig_same(self, now(self)))


@ensures(W + '.truncate_by_index')
def tbi_sync(self, start, stop, result):
    return implies(in_sync(self), in_sync(now(self)))


# --------------------------------------------------------------------- truncate_by_value

contract(W + '.truncate_by_value', params=dict(self=Obj(W), x_left=Real, x_right=Real, x_left_as_ratio=Bool,
                                               x_right_as_ratio=Bool), modifies=['self'], generator='gen_tbv')


def bound(x, v, as_ratio):
    return (v * (x[len(x) - 1] - x[0]) + x[0]) if as_ratio else v


@raises(W + '.truncate_by_value', 'ValueError')
def tbv_empty(self, x_left, x_right, x_left_as_ratio, x_right_as_ratio):
    """an empty or inverted truncation range (on the working or on the reference series)"""
    return (bound(self.x, x_left, x_left_as_ratio) >= bound(self.x, x_right, x_right_as_ratio)
            or bound(self.reference_x, x_left, x_left_as_ratio) >= bound(self.reference_x, x_right, x_right_as_ratio))


def first_kept(x, left, l):
    return (0 <= l and l < len(x)
            and ((l == 0) if left < x[0] else (x[l] <= left and forall(range(len(x)), lambda i: implies(x[i] <= left, i <= l)))))


def last_kept(x, right, r):
    return (0 <= r and r < len(x)
            and ((r == len(x) - 1) if right > x[len(x) - 1]
                 else (x[r] >= right and forall(range(len(x)), lambda i: implies(x[i] >= right, i >= r)))))


def truncated(x, y, nx, ny, left, right):
    return exists(range(len(x)), lambda l: exists(range(len(x)), lambda r:
                  first_kept(x, left, l) and last_kept(x, right, r) and l <= r
                  and len(nx) == r - l + 1 and len(ny) == r - l + 1
                  and forall(range(r - l + 1), lambda i: nx[i] == x[l + i] and ny[i] == y[l + i])))


@ensures(W + '.truncate_by_value')
def tbv_post(self, x_left, x_right, x_left_as_ratio, x_right_as_ratio, result):
    """working and reference series are cut with the same bounds"""
    return (truncated(self.x, self.y, now(self).x, now(self).y,
                      bound(self.x, x_left, x_left_as_ratio), bound(self.x, x_right, x_right_as_ratio))
            and truncated(self.reference_x, self.reference_y, now(self).reference_x, now(self).reference_y,
                          bound(self.reference_x, x_left, x_left_as_ratio), bound(self.reference_x, x_right, x_right_as_ratio))
            and orig_same(self, now(self)))


@ensures(W + '.truncate_by_value')
def tbv_sync(self, x_left, x_right, x_left_as_ratio, x_right_as_ratio, result):
    return implies(in_sync(self), in_sync(now(self)))


@ensures(W + '.repeat')
def wrepeat_sync(self, n, result):
    return implies(in_sync(self), in_sync(now(self)))


@hint(W + '.normalize_x', when='entry')
def normalize_x_entry(self, min_val, max_val):
    """two distinct abscissae exist in each series (strictly increasing, >= 2 points)"""
    return (self.x[0] < self.x[1] and self.reference_x[0] < self.reference_x[1] and self.original_x[0] < self.original_x[1]
            and MINMAX_EXT_IMP(self.x, self.reference_x, len(self.x)))


@hint(W + '.normalize_y', when='entry')
def normalize_y_entry(self, min_val, max_val):
    return MINMAX_EXT_IMP(self.y, self.reference_y, len(self.y))


# ------------------------------------------------------------------------ recreate_from_average / integral_match (C02)

def grid_rel(x0, n, x1):
    """x1 is the n-fold grid over x0: every n-th abscissa is an original one (bit for bit), linear spacing in between"""
    return (len(x1) == (len(x0) - 1) * n + 1
            and forall(range(len(x0)), lambda k: x1[k * n] == x0[k])
            and forall(range(len(x0) - 1), lambda k: forall(range(n), lambda j: eq(x1[k * n + j], x0[k] + j * (x0[k + 1] - x0[k]) / n))))


contract(W + '.recreate_from_average', params=dict(self=Obj(W), n=Int, rfa_class=Class('traffic_weaver.rfa.AbstractRFA'), kwargs=Kwargs),
         modifies=['self'], no_rt=True)


@requires(W + '.recreate_from_average')
def rfa_w_pre(self, n, rfa_class, kwargs):
    return len(self.x) >= 2


@raises(W + '.recreate_from_average', 'ValueError')
def rfa_w_small_n(self, n, rfa_class, kwargs):
    return n < 2


@ensures(W + '.recreate_from_average')
def rfa_w_post(self, n, rfa_class, kwargs, result):
    """C02/C04 at the Weaver: the processed series becomes the n-fold grid over the previous one; reference and original
    are untouched (they are what integral_match matches against)"""
    return (grid_rel(self.x, n, now(self).x) and len(now(self).y) == len(now(self).x)
            and same(now(self).reference_x, self.reference_x) and same(now(self).reference_y, self.reference_y) and orig_same(self, now(self)))


contract(W + '.integral_match', params=dict(self=Obj(W), target_function_integral_method=Str, reference_function_integral_method=Str,
                                            kwargs=Kwargs), modifies=['self'], no_rt=True)


@requires(W + '.integral_match')
def im_w_pre(self, target_function_integral_method, reference_function_integral_method, kwargs):
    """the selected fixed points are distinct and leave an interior sample (true after recreate_from_average with n >= 2)"""
    return (len(self.x) >= 2 and forall(range(len(self.reference_x) - 1), lambda j:
                                         nearest(self.x, self.reference_x[j + 1], 'closest') - nearest(self.x, self.reference_x[j], 'closest') >= 2))


@raises(W + '.integral_match', 'ValueError')
def im_w_rejected(self, target_function_integral_method, reference_function_integral_method, kwargs):
    return (not (reference_function_integral_method == 'trapezoid' or reference_function_integral_method == 'rectangle')
            or (not (target_function_integral_method == 'trapezoid' or target_function_integral_method == 'rectangle')
                and len(self.reference_x) >= 2))


def rule_term_w(x, r, i, method):
    return ((r[i] + r[i + 1]) / 2 * (x[i + 1] - x[i])) if method == 'trapezoid' else (r[i] * (x[i + 1] - x[i]))


@ensures(W + '.integral_match')
def im_w_post(self, target_function_integral_method, reference_function_integral_method, kwargs, result):
    """C02 (matching step): over every reference interval the new values integrate (target rule) to the reference integral"""
    return (work_x_same(self, now(self)) and len(now(self).y) == len(self.y)
            and same(now(self).reference_x, self.reference_x) and same(now(self).reference_y, self.reference_y) and orig_same(self, now(self))
            and forall(range(len(self.reference_x) - 1), lambda j:
                       eq(sum_range(nearest(self.x, self.reference_x[j], 'closest'), nearest(self.x, self.reference_x[j + 1], 'closest'),
                                    lambda i: rule_term_w(self.x, now(self).y, i, target_function_integral_method)),
                          rule_term_w(self.reference_x, self.reference_y, j, reference_function_integral_method))))


# ---- C02: composition of the three contracts (Weaver.__init__: reference = original; recreate_from_average: n-fold grid over
# the reference abscissae; integral_match: every reference interval integrates to the reference integral).  The lemma's
# hypotheses are literally the postconditions of the two calls; its conclusion is the property.

C02L = 'lemma:weaver.recreate_then_match_preserves_averages'
contract(C02L, params=dict(x0=Seq(Real), y0=Seq(Real), n=Int, x1=Seq(Real), y2=Seq(Real), target=Str), lemma=True, no_rt=True)


@requires(C02L)
def c02_pre(x0, y0, n, x1, y2, target):
    return (len(x0) >= 2 and len(y0) == len(x0) and strictly_increasing(x0) and n >= 2
            # postcondition of recreate_from_average (the reference is the original series)
            and grid_rel(x0, n, x1) and strictly_increasing(x1) and len(y2) == len(x1)
            and (target == 'trapezoid' or target == 'rectangle')
            # postcondition of integral_match against the piecewise-constant reference
            and forall(range(len(x0) - 1), lambda j:
                       eq(sum_range(nearest(x1, x0[j], 'closest'), nearest(x1, x0[j + 1], 'closest'), lambda i: rule_term_w(x1, y2, i, target)),
                          rule_term_w(x0, y0, j, 'rectangle'))))


@hint(C02L, when='entry')
def c02_h_fixed(x0, y0, n, x1, y2, target):
    """the sample closest to an original abscissa is the grid sample that equals it bit for bit"""
    return forall(range(len(x0)), lambda k: nearest(x1, x0[k], 'closest') == k * n)


@ensures(C02L)
def c02_match_applicable(x0, y0, n, x1, y2, target):
    """the precondition of integral_match holds after recreate_from_average (fixed points n >= 2 samples apart)"""
    return forall(range(len(x0) - 1), lambda j: nearest(x1, x0[j + 1], 'closest') - nearest(x1, x0[j], 'closest') >= 2)


@ensures(C02L)
def c02_interval_means(x0, y0, n, x1, y2, target):
    """C02: over every original interval the matched series integrates (target rule) to average * width, i.e. its mean over
    the interval equals the original average"""
    return forall(range(len(x0) - 1), lambda k:
                  eq(sum_range(k * n, (k + 1) * n, lambda i: rule_term_w(x1, y2, i, target)), y0[k] * (x0[k + 1] - x0[k])))


C02B = 'lemma:weaver.block_average_returns_original'
contract(C02B, params=dict(x0=Seq(Real), y0=Seq(Real), n=Int, x1=Seq(Real), y2=Seq(Real), k=Int), lemma=True, no_rt=True,
         lemmas=['SUM_SCALE'])


@requires(C02B)
def c02b_pre(x0, y0, n, x1, y2, k):
    return (len(x0) >= 2 and len(y0) == len(x0) and strictly_increasing(x0) and n >= 2 and grid_rel(x0, n, x1) and len(y2) == len(x1)
            and 0 <= k and k < len(x0) - 1
            # conclusion of the previous lemma for the rectangle target rule
            and eq(sum_range(k * n, (k + 1) * n, lambda i: rule_term_w(x1, y2, i, 'rectangle')), y0[k] * (x0[k + 1] - x0[k])))


@hint(C02B, when='entry')
def c02b_h_last_step(x0, y0, n, x1, y2, k):
    return x1[(k + 1) * n] == x0[k + 1] and x1[k * n + (n - 1)] == x0[k] + (n - 1) * (x0[k + 1] - x0[k]) / n


@hint(C02B, when='entry')
def c02b_h_steps(x0, y0, n, x1, y2, k):
    """inside an original interval all steps of the grid are equal: width / n"""
    return forall(range(n), lambda j: x1[k * n + j + 1] - x1[k * n + j] == (x0[k + 1] - x0[k]) / n)


@hint(C02B, when='entry')
def c02b_h_terms(x0, y0, n, x1, y2, k):
    return forall(range(k * n, (k + 1) * n), lambda i: rule_term_w(x1, y2, i, 'rectangle') == ((x0[k + 1] - x0[k]) / n) * y2[i])


@hint(C02B, when='entry')
def c02b_h_scale(x0, y0, n, x1, y2, k):
    return SUM_SCALE(seq_of(len(x1) - 1, lambda i: y2[i]), seq_of(len(x1) - 1, lambda i: rule_term_w(x1, y2, i, 'rectangle')),
                     (x0[k + 1] - x0[k]) / n, k * n, (k + 1) * n)


@ensures(C02B)
def c02b_block_mean(x0, y0, n, x1, y2, k):
    """C02 (rectangle rule): the mean of the n samples of block k is the original average, and the block starts at the
    original abscissa bit for bit - what process.average(x, y, n) returns (C17: block mean, first abscissa of each row)"""
    return eq(sum_range(k * n, (k + 1) * n, lambda i: y2[i]) / n, y0[k]) and x1[k * n] == x0[k]


# ---- bounded end-to-end monitor of C02 on the real code (all six strategies, both target rules, periodic extension, bundled data)

PIPE = 'rt:weaver.pipeline'
contract(PIPE, params=dict(x=Seq(Real, kind='list'), y=Seq(Real, kind='list'), n=Int, strategy=Str, kw=Any, target=Str, periodic=Bool),
         rt_target='contracts._c02_rt.pipeline', rt_only=True, generator='gen_pipeline', no_frame=True)


@ensures(PIPE, assumed='bounded: run-time monitoring of the whole pipeline on generated inputs only')
def pipe_means(x, y, n, strategy, kw, target, periodic, result):
    return C02RT.means_preserved(n, target, result)


def gen_pipeline(rnd):
    return C02RT.gen_pipeline(rnd)


# ------------------------------------------------------------------------ to_function / smooth (C16)

def same_seq_w(a, b):
    return len(a) == len(b) and forall(range(len(a)), lambda i: a[i] == b[i])


contract(W + '.to_function', params=dict(self=Obj(W), s=Opt(Real)), returns=Obj('ext:spline'))


@requires(W + '.to_function')
def to_function_pre(self, s):
    return len(self.x) >= 5 and (True if s is None else s >= 0)


@ensures(W + '.to_function', static_only=True)
def to_function_current(self, s, result):
    """C16: the spline is fitted to the CURRENT processed series (what get() returns) with exactly the given s; with s = 0 it
    passes through every sample (assumed FITPACK contract, carried by spline_smooth's contract)"""
    return (same_seq_w(result.src_x, self.x) and same_seq_w(result.src_y, self.y)
            and implies(s is not None and s == 0, forall(range(len(self.x)), lambda k: result.fn(self.x[k]) == self.y[k])))


@ensures(W + '.to_function', assumed='bounded: run-time monitoring over generated operation histories only')
def to_function_rt(self, s, result):
    return WRT.spline_consistent(self, s, result)


contract(W + '.smooth', params=dict(self=Obj(W), s=Opt(Real)), modifies=['self'])


@requires(W + '.smooth')
def smooth_w_pre(self, s):
    return len(self.x) >= 5 and (True if s is None else s >= 0)


@ensures(W + '.smooth')
def smooth_w_post(self, s, result):
    """C16: smoothing keeps x and the length and leaves reference and original alone"""
    return (work_x_same(self, now(self)) and len(now(self).y) == len(self.y)
            and same(now(self).reference_x, self.reference_x) and same(now(self).reference_y, self.reference_y) and orig_same(self, now(self)))


@ensures(W + '.smooth', assumed='bounded: run-time monitoring over generated operation histories only')
def smooth_w_rt(self, s, result):
    return WRT.smooth_condition(self, now(self), s)


# ------------------------------------------------------------------------------ noise (C09/C15 at the Weaver)

contract(W + '.noise', params=dict(self=Obj(W), snr=Union(NoneT, Real, Seq(Real, kind='arraylike')), kwargs=Kwargs),
         modifies=['self'], no_rt=True)


@requires(W + '.noise')
def noise_w_pre(self, snr, kwargs):
    return (len(snr) == len(self.y)) if is_seq(snr) else True


@ensures(W + '.noise')
def noise_w_post(self, snr, kwargs, result):
    """C09/C15: adding noise keeps x and the length, writes a new y and leaves reference, original and the caller's snr alone"""
    return (work_x_same(self, now(self)) and len(now(self).y) == len(self.y)
            and same(now(self).reference_x, self.reference_x) and same(now(self).reference_y, self.reference_y) and orig_same(self, now(self)))


# ------------------------------------------------------------------ run-time generators (bounded stand-in only)

def gen_tbv(rnd):
    """truncate_by_value after histories in which working and reference series span different ranges"""
    from contracts import _histories as H
    import numpy as np
    for _ in range(50):
        w = H.gen_weaver(rnd, max_ops=1)
        r = dict(w.__verif_repr__()["__history__"])
        ops = list(r["ops"])
        if rnd.random() < 0.7:
            ops += [["recreate_from_average", dict(n=rnd.randint(2, 4), rfa_class="PiecewiseConstantRFA")],
                    ["repeat", dict(n=rnd.randint(1, 3))]]
        try:
            w = H.build({"__history__": dict(r, ops=ops)})
        except Exception:
            continue
        x = np.asarray(w.get()[0], dtype=float)
        if len(x) > 80:
            continue
        span, x0 = x[-1] - x[0], x[0]
        mode = rnd.random()
        if mode < 0.5:
            rho = rnd.choice([0.0, 0.25, 0.3, 0.5, 0.75, 0.9])
            v = x0 + rho * span + rnd.choice([-0.5, 0.01, 0.1, 0.25, 0.5, 1.0])
            return dict(self=w, x_left=rho, x_right=float(v), x_left_as_ratio=True, x_right_as_ratio=False)
        if mode < 0.75:
            a, b = sorted([rnd.random(), rnd.random()])
            return dict(self=w, x_left=a, x_right=b, x_left_as_ratio=True, x_right_as_ratio=True)
        a, b = rnd.choice(list(x)), rnd.choice(list(x))
        return dict(self=w, x_left=float(a), x_right=float(b), x_left_as_ratio=False, x_right_as_ratio=False)
    raise NotImplementedError("gen_tbv")


def gen_interpolate(rnd):
    from contracts import _histories as H
    import numpy as np
    w = H.gen_weaver(rnd, max_ops=2)
    x = np.asarray(w.get()[0], dtype=float)
    method = rnd.choice(['linear', 'constant', 'cubic', 'spline', 'linear', 'bogus'])
    mode = rnd.random()
    if mode < 0.4:
        return dict(self=w, n=rnd.choice([2, 3, 5, 8]), new_x=None, method=method, kwargs={})
    if mode < 0.5:
        return dict(self=w, n=None, new_x=None, method=method, kwargs={})
    inner = sorted(set(float(v) for v in np.round(np.random.RandomState(rnd.randint(0, 10**6)).uniform(x[0], x[-1], rnd.randint(0, 5)), 2)
                       if x[0] < v < x[-1]))
    grid = [float(x[0])] + inner + [float(x[-1])]
    if rnd.random() < 0.2:
        grid[-1] += 1.0
    return dict(self=w, n=None, new_x=(grid if rnd.random() < 0.5 else np.array(grid)), method=method, kwargs={})
