"""evaluate seeded changes on scratch copies of the source tree (PYVC_SRC_ROOT), several properties in parallel.
Results -> seeded/<id>/result.json (mode: scratch-copy).  The /repo-based tools/eval_seeded.py is the reference procedure."""
import json, os, shutil, subprocess, sys, time
from concurrent.futures import ThreadPoolExecutor
ids = sys.argv[1:]
CLEAN = '/tmp/clean/src'
by = {}
for sid in ids:
    by.setdefault(sid.split('_')[0], []).append(sid)


def one(sid):
    d = f'/verif/seeded/{sid}'
    meta = json.load(open(f'{d}/meta.json'))
    pid = meta.get('property', sid.split('_')[0])
    root = f'/tmp/scr_{sid}'
    shutil.rmtree(root, ignore_errors=True)
    os.makedirs(root)
    shutil.copytree(CLEAN, root + '/src')
    ap = subprocess.run(['patch', '-p1', '-s', '-i', f'{d}/patch.diff'], cwd=root, capture_output=True, text=True)
    res = dict(id=sid, property=pid, apply_ok=ap.returncode == 0, mode='scratch-copy')
    try:
        if ap.returncode == 0:
            env = dict(os.environ, PYTHONPATH=root + '/src')
            demo = subprocess.run(['/venv/bin/python', f'{d}/demo.py'], env=env, capture_output=True, text=True, cwd='/tmp', timeout=900)
            res['demo_patched_exit'] = demo.returncode
            checks = {}
            for p in [pid] + list(meta.get('also', [])):
                t0 = time.time()
                c = subprocess.run(['./check', p], cwd='/verif', env=dict(os.environ, PYVC_SRC_ROOT=root + '/src'), capture_output=True, text=True, timeout=3000)
                lines = [l for l in c.stdout.splitlines() if l.startswith(('VIOLATION', 'UNDECIDED', 'CHECKER'))]
                checks[p] = dict(exit=c.returncode, lines=lines[:3], wall_s=round(time.time() - t0, 1),
                                 failed=[l.strip() for l in c.stdout.splitlines() if l.strip().startswith('failed:')][:6])
            res['checks'] = checks
    finally:
        shutil.rmtree(root, ignore_errors=True)
    json.dump(res, open(f'{d}/result.json', 'w'), indent=1)
    print(sid, res.get('demo_patched_exit'), {k: (v['exit'], v['lines'][:1], v['wall_s']) for k, v in res.get('checks', {}).items()}, flush=True)


def group(g):
    for sid in g:
        try:
            one(sid)
        except Exception as e:
            print(sid, 'ERROR', e, flush=True)


with ThreadPoolExecutor(max_workers=int(os.environ.get('PAR', '3'))) as ex:
    list(ex.map(group, by.values()))
