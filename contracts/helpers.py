"""C17 (and building blocks of C01/C02/C04) - array helpers of sorted_array_utils.py.

Postconditions are the sentences of C17 in index form.
"""
from pyvc.spec import *

M = 'traffic_weaver.sorted_array_utils.'
APPEND = M + 'append_one_sample'
OS_LIN = M + 'oversample_linspace'
OS_PWC = M + 'oversample_piecewise_constant'
EXT_LIN = M + 'extend_linspace'
EXT_CONST = M + 'extend_constant'
RECT = M + 'rectangle_integral'
TRAP = M + 'trapezoid_integral'
INTEGRAL = M + 'integral'
SUMIDX = M + 'sum_over_indices'


# ------------------------------------------------------------------ append_one_sample

contract(APPEND, params=dict(x=Seq(Real, kind='arraylike'), y=Seq(Real, kind='arraylike'), make_periodic=Bool),
         returns=Tuple(Seq(Real), Seq(Real)))


@requires(APPEND)
def append_pre(x, y, make_periodic):
    return len(x) >= 2 and len(y) >= 1


@ensures(APPEND)
def append_post_x(x, y, make_periodic, result):
    return (is_ndarray(result[0]) and len(result[0]) == len(x) + 1
            and forall(range(len(x)), lambda i: result[0][i] == x[i])
            and eq(result[0][len(x)], x[len(x) - 1] + (x[len(x) - 1] - x[len(x) - 2])))


@ensures(APPEND)
def append_post_y(x, y, make_periodic, result):
    return (is_ndarray(result[1]) and len(result[1]) == len(y) + 1
            and forall(range(len(y)), lambda i: result[1][i] == y[i])
            and result[1][len(y)] == (y[0] if make_periodic else y[len(y) - 1]))


# ------------------------------------------------------------------ oversample_linspace

contract(OS_LIN, params=dict(a=Seq(Real, kind='arraylike'), num=Int), returns=Seq(Real))


@requires(OS_LIN)
def oslin_pre(a, num):
    return len(a) >= 1


@ensures(OS_LIN)
def oslin_small(a, num, result):
    return (same_len(result, a) and forall(range(len(a)), lambda i: result[i] == a[i])) if num < 2 else True


@ensures(OS_LIN)
def oslin_len(a, num, result):
    return (is_ndarray(result) and len(result) == (len(a) - 1) * num + 1) if num >= 2 else True


@ensures(OS_LIN)
def oslin_fill(a, num, result):
    return forall(range(len(a) - 1), lambda k: forall(range(num), lambda j:
                  eq(result[k * num + j], a[k] + j * (a[k + 1] - a[k]) / num)
                  # the flat index of (k, j) lies before the last element (stated here so that callers get this nonlinear
                  # fact together with every instance of the clause)
                  and 0 <= k * num + j and k * num + j < (len(a) - 1) * num)) if num >= 2 else True


@ensures(OS_LIN)
def oslin_last(a, num, result):
    return (result[(len(a) - 1) * num] == a[len(a) - 1]) if num >= 2 else True


@ensures(OS_LIN)
def oslin_keeps_originals(a, num, result):
    """every num-th element is an original element (exactly: j = 0 term of the linspace contract)"""
    return forall(range(len(a)), lambda k: result[k * num] == a[k]) if num >= 2 else True


# ------------------------------------------------------------------ oversample_piecewise_constant

contract(OS_PWC, params=dict(a=Seq(Real, kind='arraylike'), num=Int), returns=Seq(Real))


@requires(OS_PWC)
def ospwc_pre(a, num):
    return len(a) >= 1


@ensures(OS_PWC)
def ospwc_post(a, num, result):
    return ((same_len(result, a) and forall(range(len(a)), lambda i: result[i] == a[i])) if num < 2 else
            (is_ndarray(result) and len(result) == (len(a) - 1) * num + 1
             and forall(range(len(a) - 1), lambda k: forall(range(num), lambda j:
                        result[k * num + j] == a[k] and 0 <= k * num + j and k * num + j < (len(a) - 1) * num))
             and result[(len(a) - 1) * num] == a[len(a) - 1] and result[0] == a[0]))


# ------------------------------------------------------------------ extend_linspace

contract(EXT_LIN, params=dict(a=Seq(Real, kind='arraylike'), n=Int, direction=Str, lstart=Opt(Real), rstop=Opt(Real)),
         returns=Seq(Real), generator='gen_extend_lin')


def wants_left(direction):
    return direction == 'both' or direction == 'left'


def wants_right(direction):
    return direction == 'both' or direction == 'right'


@requires(EXT_LIN)
def extlin_pre(a, n, direction, lstart, rstop):
    return n >= 1 and len(a) >= 1 and implies((wants_left(direction) and lstart is None)
                                               or (wants_right(direction) and rstop is None), len(a) >= n + 1)


def n_left(n, direction):
    return n if wants_left(direction) else 0


def n_right(n, direction):
    return n if wants_right(direction) else 0


def left_start(a, n, lstart):
    return (2 * a[0] - a[n]) if lstart is None else lstart


def right_stop(a, n, rstop):
    return (2 * a[len(a) - 1] - a[len(a) - 1 - n]) if rstop is None else rstop


@ensures(EXT_LIN)
def extlin_post(a, n, direction, lstart, rstop, result):
    return (is_ndarray(result)
            and len(result) == len(a) + n_left(n, direction) + n_right(n, direction)
            # the original elements sit in the middle
            and forall(range(len(a)), lambda i: result[n_left(n, direction) + i] == a[i])
            # left continuation: linear from the start value up to (excluding) a[0]
            and (forall(range(n), lambda j:
                        eq(result[j], left_start(a, n, lstart) + j * (a[0] - left_start(a, n, lstart)) / n))
                 if wants_left(direction) else True)
            # right continuation: linear from (excluding) a[-1] to the stop value
            and (forall(range(n), lambda j:
                        eq(result[n_left(n, direction) + len(a) + j],
                           a[len(a) - 1] + (j + 1) * (right_stop(a, n, rstop) - a[len(a) - 1]) / n))
                 if wants_right(direction) else True))


# ------------------------------------------------------------------ extend_constant

contract(EXT_CONST, params=dict(a=Seq(Real, kind='arraylike'), n=Int, direction=Str), returns=Seq(Real), generator='gen_extend_const')


@requires(EXT_CONST)
def extconst_pre(a, n, direction):
    return n >= 0 and len(a) >= 1


@ensures(EXT_CONST)
def extconst_post(a, n, direction, result):
    return (is_ndarray(result)
            and len(result) == len(a) + n_left(n, direction) + n_right(n, direction)
            and forall(range(len(a)), lambda i: result[n_left(n, direction) + i] == a[i])
            and (forall(range(n), lambda j: result[j] == a[0]) if wants_left(direction) else True)
            and (forall(range(n), lambda j: result[n_left(n, direction) + len(a) + j] == a[len(a) - 1])
                 if wants_right(direction) else True))


# ------------------------------------------------------------------ integration rules

contract(RECT, params=dict(x=Seq(Real, kind='arraylike'), y=Seq(Real, kind='arraylike')), returns=Seq(Real), inline=True)


@requires(RECT)
def rect_pre(x, y):
    return len(x) == len(y) and len(x) >= 1


@ensures(RECT)
def rect_post(x, y, result):
    return (is_ndarray(result) and len(result) == len(x) - 1
            and forall(range(len(x) - 1), lambda i: eq(result[i], y[i] * (x[i + 1] - x[i]))))


contract(TRAP, params=dict(x=Seq(Real, kind='arraylike'), y=Seq(Real, kind='ndarray')), returns=Seq(Real), inline=True)


@requires(TRAP)
def trap_pre(x, y):
    return len(x) == len(y) and len(x) >= 1


@ensures(TRAP)
def trap_post(x, y, result):
    return (is_ndarray(result) and len(result) == len(x) - 1
            and forall(range(len(x) - 1), lambda i: eq(result[i], (y[i] + y[i + 1]) / 2 * (x[i + 1] - x[i]))))


contract(INTEGRAL, params=dict(x=Seq(Real, kind='arraylike'), y=Seq(Real, kind='ndarray'), method=Str), returns=Seq(Real), inline=True)


@requires(INTEGRAL)
def integral_pre(x, y, method):
    return len(x) == len(y) and len(x) >= 1


@raises(INTEGRAL, 'ValueError')
def integral_unknown(x, y, method):
    return method != 'trapezoid' and method != 'rectangle'


@ensures(INTEGRAL)
def integral_post(x, y, method, result):
    return (is_ndarray(result) and len(result) == len(x) - 1
            and forall(range(len(x) - 1), lambda i:
                       eq(result[i], ((y[i] + y[i + 1]) / 2 * (x[i + 1] - x[i])) if method == 'trapezoid'
                          else (y[i] * (x[i + 1] - x[i])))))


# ------------------------------------------------------------------ sum_over_indices

contract(SUMIDX, params=dict(a=Seq(Real, kind='arraylike'), indices=Seq(Int, kind='arraylike')), returns=Seq(Real))


@requires(SUMIDX)
def sumidx_pre(a, indices):
    return (len(indices) >= 1
            and forall(range(len(indices)), lambda i: 0 <= indices[i] and indices[i] <= len(a))
            and non_decreasing(indices))


@ensures(SUMIDX)
def sumidx_post(a, indices, result):
    return (is_ndarray(result) and len(result) == len(indices) - 1
            and forall(range(len(indices) - 1), lambda i:
                       eq(result[i], sum_range(indices[i], indices[i + 1], lambda k: a[k]))))


# ------------------------------------------------------------------ run-time generators (bounded stand-in only)

def gen_extend_lin(rnd):
    import numpy as np
    m = rnd.randint(1, 7)
    a = np.cumsum([rnd.choice([0.5, 1.0, 2.0]) for _ in range(m)]) + rnd.choice([-3.0, 0.0, 2.0])
    n = rnd.randint(1, min(4, max(1, m - 1)))
    return dict(a=a if rnd.random() < 0.7 else a.tolist(), n=n, direction=rnd.choice(['both', 'left', 'right', 'both', 'none']),
                lstart=rnd.choice([None, None, 0.0, -5.0, float(a[0]) - 1.5]), rstop=rnd.choice([None, None, 0.0, 20.0, float(a[-1]) + 2.5]))


def gen_extend_const(rnd):
    import numpy as np
    m = rnd.randint(1, 7)
    a = np.array([float(rnd.randint(-4, 4)) / 2 for _ in range(m)])
    return dict(a=a if rnd.random() < 0.7 else a.tolist(), n=rnd.randint(0, 4), direction=rnd.choice(['both', 'left', 'right', 'nope']))
