"""Discharge of obligations: one SMT query per obligation, in a process pool."""
import multiprocessing as mp
import os
import sys
import subprocess
import tempfile
import time

import z3

from .core import pow_axioms, sum_axioms, sum_axioms_nonrecursive, POW, SUM

TIMEOUT_MS = int(os.environ.get("PYVC_TIMEOUT_MS", "20000"))


GLOBAL_FUNS = {"SUM", "POW", "MINF", "MAXF", "ARGMIN", "ARGMAX", "STD", "MEAN", "IDXOF"}


_SYM_CACHE = {}


def symbols(f, limit=4000):
    """uninterpreted symbols of a term (memoised per z3 AST; the entry keeps the term alive so that its id is not reused)"""
    hit = _SYM_CACHE.get(f.get_id())
    if hit is not None and hit[0].eq(f):
        return set(hit[1])
    out = _symbols(f, limit)
    _SYM_CACHE[f.get_id()] = (f, frozenset(out))
    return set(out)


def _symbols(f, limit=4000):
    out, seen, stack, n = set(), set(), [f], 0
    while stack and n < limit:
        x = stack.pop()
        if x.get_id() in seen:
            continue
        seen.add(x.get_id())
        n += 1
        if z3.is_quantifier(x):
            stack.append(x.body())
        elif z3.is_app(x):
            d = x.decl()
            if d.kind() == z3.Z3_OP_UNINTERPRETED and d.name() not in GLOBAL_FUNS:
                out.add(d.name())
            stack.extend(x.children())
    return out


_DEF_CACHE = {}


def _defines(h):
    hit = _DEF_CACHE.get(h.get_id())
    if hit is not None and hit[0].eq(h):
        return hit[1]
    d = _defines0(h)
    _DEF_CACHE[h.get_id()] = (h, d)
    return d


def _defines0(h):
    """if h is a definitional axiom (forall k. A[k] == body) or (c == term) return the defined symbol"""
    if z3.is_quantifier(h) and h.is_forall() and h.num_vars() == 1:
        b = h.body()
        if z3.is_eq(b):
            l = b.arg(0)
            if z3.is_app(l) and l.decl().kind() == z3.Z3_OP_SELECT and z3.is_const(l.arg(0)) and z3.is_var(l.arg(1)):
                return l.arg(0).decl().name()
    if z3.is_eq(h) and z3.is_const(h.arg(0)) and h.arg(0).decl().kind() == z3.Z3_OP_UNINTERPRETED and "!" in h.arg(0).decl().name():
        return h.arg(0).decl().name()
    return None


def relevant_hyps(ob, mode):
    """hypothesis selection (dropping hypotheses is sound: it only weakens the query).
    `mode` rounds of closure: a hypothesis is kept when it shares a *rare* symbol (one that occurs in few hypotheses) with the
    goal or with a hypothesis kept in an earlier round; definitions of kept symbols are always followed; small quantifier-free
    facts (bounds, lengths, branch conditions) are always kept."""
    hyps = list(ob.hyps)
    syms = [symbols(h) for h in hyps]
    count = {}
    for ss in syms:
        for x in ss:
            count[x] = count.get(x, 0) + 1
    common = {x for x, c in count.items() if c > max(8, 0.3 * len(hyps))}
    defs = {}
    for i, h in enumerate(hyps):
        d = _defines(h)
        if d is not None:
            defs.setdefault(d, []).append(i)
    S = symbols(ob.goal) - common
    keep = set()
    for _round in range(mode):
        new = set()
        for i, ss in enumerate(syms):
            if i not in keep and (ss - common) & S:
                new.add(i)
        for x in list(S):
            for i in defs.get(x, []):
                if i not in keep:
                    new.add(i)
        if not new:
            break
        keep |= new
        for i in new:
            S |= syms[i] - common
    for i, h in enumerate(hyps):
        if i in keep:
            continue
        if not z3.is_quantifier(h) and len(syms[i]) <= 4:
            t = h.sexpr()
            if len(t) < 600 and "forall" not in t and "exists" not in t:
                keep.add(i)
    return [hyps[i] for i in sorted(keep)]


_GS_CACHE = {}
_QR_CACHE = {}


def _ground_selects_one(f):
    hit = _GS_CACHE.get(f.get_id())
    if hit is not None and hit[0].eq(f):
        return hit[1]
    out = []
    seen, stack = set(), [f]
    while stack:
        x = stack.pop()
        if x.get_id() in seen:
            continue
        seen.add(x.get_id())
        if z3.is_quantifier(x):
            continue
        if z3.is_app(x):
            if x.decl().kind() == z3.Z3_OP_SELECT and z3.is_const(x.arg(0)) and x.arg(0).decl().kind() == z3.Z3_OP_UNINTERPRETED:
                out.append((x.arg(0).decl().name(), x.arg(1).get_id(), x.arg(1)))
            stack.extend(x.children())
    _GS_CACHE[f.get_id()] = (f, out)
    return out


def _ground_selects(fs):
    """(array constant name, index term) of every array read over a ground index in the given formulas"""
    out = {}
    for f in fs:
        for name, i, t in _ground_selects_one(f):
            out.setdefault(name, {})[i] = t
    return out


_GA_CACHE = {}


def _ground_apps_one(f):
    """applications of opaque specification functions (SPEC_*) over ground arguments"""
    hit = _GA_CACHE.get(f.get_id())
    if hit is not None and hit[0].eq(f):
        return hit[1]
    out = []
    seen, stack = set(), [f]
    while stack:
        x = stack.pop()
        if x.get_id() in seen:
            continue
        seen.add(x.get_id())
        if z3.is_quantifier(x):
            continue
        if z3.is_app(x):
            d = x.decl()
            if d.kind() == z3.Z3_OP_UNINTERPRETED and d.arity() > 0 and (d.name().startswith("SPEC_") or d.name() == "POW"):
                out.append((d.name(), x.get_id(), x))
            stack.extend(x.children())
    _GA_CACHE[f.get_id()] = (f, out)
    return out


def _def_pattern(q):
    """(function name, argument templates) when q has the single pattern F(t1..tn) with every ti a bound variable or a ground
    term: defining equations of opaque specification functions (`forall vs. F(vs) == body`) and the unary-pattern power axioms.
    A template is ('var', de Bruijn index) or ('term', ground term)."""
    if q.num_patterns() != 1:
        return None
    p = q.pattern(0)
    if p.num_args() != 1:
        return None
    app = p.arg(0)
    if not (z3.is_app(app) and app.decl().kind() == z3.Z3_OP_UNINTERPRETED and (app.decl().name().startswith("SPEC_") or app.decl().name() == "POW")):
        return None
    tmpl = []
    for a in app.children():
        if z3.is_var(a):
            tmpl.append(("var", z3.get_var_index(a)))
        elif not _has_var(a):
            tmpl.append(("term", a))
        else:
            return None
    return app.decl().name(), tmpl


def _quant_reads(q):
    """array reads in the body of a quantified hypothesis (memoised)"""
    hit = _QR_CACHE.get(q.get_id())
    if hit is not None and hit[0].eq(q):
        return hit[1]
    reads = []
    st_, seen = [q.body()], set()
    while st_:
        x = st_.pop()
        if x.get_id() in seen or z3.is_quantifier(x):
            continue
        seen.add(x.get_id())
        if z3.is_app(x):
            if x.decl().kind() == z3.Z3_OP_SELECT and z3.is_const(x.arg(0)) and x.arg(0).decl().kind() == z3.Z3_OP_UNINTERPRETED:
                reads.append((x.arg(0).decl().name(), x.arg(1)))
            st_.extend(x.children())
    _QR_CACHE[q.get_id()] = (q, reads)
    return reads


def _split_affine(t):
    """t = a*c + b (syntactically, after simplification) -> list of (a, c, b) candidates"""
    t = z3.simplify(t)
    cands = []
    terms = list(t.children()) if z3.is_app(t) and t.decl().kind() == z3.Z3_OP_ADD else [t]
    for i, m in enumerate(terms):
        if z3.is_app(m) and m.decl().kind() == z3.Z3_OP_MUL and m.num_args() == 2:
            rest = terms[:i] + terms[i + 1:]
            b = z3.IntVal(0) if not rest else (rest[0] if len(rest) == 1 else z3.Sum(rest))
            a, c = m.arg(0), m.arg(1)
            for a_, c_ in ((a, c), (c, a)):
                cands.append((a_, c_, b))
                # the same index seen from the neighbouring blocks: (a-1)*c + (b+c), (a+1)*c + (b-c)
                cands.append((z3.simplify(a_ - 1), c_, z3.simplify(b + c_)))
                cands.append((z3.simplify(a_ + 1), c_, z3.simplify(b - c_)))
    return cands


def _has_var(t):
    st_, seen = [t], set()
    while st_:
        x = st_.pop()
        if x.get_id() in seen:
            continue
        seen.add(x.get_id())
        if z3.is_var(x):
            return True
        if z3.is_app(x):
            st_.extend(x.children())
    return False


def _solve_offset(idx, gi):
    """idx = v + c  (v the bound variable, c ground): the value of v for which idx equals the ground index gi"""
    if z3.is_app(idx) and idx.decl().kind() == z3.Z3_OP_ADD:
        vs = [a for a in idx.children() if z3.is_var(a)]
        rest = [a for a in idx.children() if not z3.is_var(a)]
        if len(vs) == 1 and rest and not any(_has_var(r) for r in rest):
            return z3.simplify(gi - (rest[0] if len(rest) == 1 else z3.Sum(rest)))
    return None


def skolemize(goal):
    """forall-prefix of the goal replaced by fresh constants: (ground-ish goal, constants)"""
    consts = []
    g = goal
    while z3.is_quantifier(g) and g.is_forall():
        vs = [z3.Const(f"sk!{g.var_name(i)}!{len(consts) + i}", g.var_sort(i)) for i in range(g.num_vars())]
        consts.extend(vs)
        g = z3.substitute_vars(g.body(), *reversed(vs))
    return g, consts


def pre_instantiate(hyps, goal, rounds=2, cap=160, parts=False):
    """instances of the quantified hypotheses at the array indices that actually occur (a small, explicit E-matching round):
    a hypothesis  forall v. ... A[v] ...  is instantiated at every ground index of A; one of the form
    forall k, j. ... A[k*c + j] ...  at every ground index of A that has the shape a*c + b.  Instances of hypotheses are
    consequences of them, so adding them is sound; it makes the proof independent of the solver's instantiation order."""
    g0 = goal
    flat = []
    for h in hyps:
        flat.extend(h.children() if z3.is_and(h) else [h])
    hyps = flat
    ground_all = [h for h in hyps if not z3.is_quantifier(h)]
    quants = [h for h in hyps if z3.is_quantifier(h) and h.is_forall() and (h.num_vars() <= 2 or _def_pattern(h) is not None)]
    # goal-directed seed: the goal and the ground facts connected to it through rare symbols (definitions of the constants it
    # mentions, ...); instances for these come first, the undirected ones fill what is left of the budget
    syms = [symbols(h) for h in ground_all]
    count = {}
    for ss in syms:
        for x in ss:
            count[x] = count.get(x, 0) + 1
    common = {x for x, c in count.items() if c > max(8, 0.3 * len(ground_all))}
    S = symbols(g0) - common
    keep = set()
    for _round in range(2):
        new_k = {i for i, ss in enumerate(syms) if i not in keep and (ss - common) & S and len(ss) <= 40}
        if not new_k:
            break
        keep |= new_k
        for i in new_k:
            S |= syms[i] - common
    directed = [ground_all[i] for i in sorted(keep)] + [g0]
    seen_inst = set()
    _ALL_GROUND[0] = ground_all
    first = _instantiate(quants, directed, rounds + 1, cap, seen_inst)
    rest = _instantiate(quants, ground_all + [g0] + first, rounds, max(0, cap - len(first)), seen_inst) if len(first) < cap else []
    if parts:
        # the minimal core: instances at the goal's own array reads / applications only (one round, then one more on what
        # these produced), and the small ground facts (bounds, branch conditions, definitions of the goal's constants)
        tiny = _instantiate(quants, [g0], 2, 140, set())
        tiny_nd = _instantiate(quants, [g0], 2, 140, set(), unfold_defs=False)      # opaque functions stay folded
        tiny_1 = _instantiate(quants, [g0], 2, 140, set(), unfold_rounds=1)         # ... or are unfolded once (the goal's own)
        gsym = symbols(g0)
        small = [h for i, h in enumerate(ground_all) if (len(syms[i]) <= 6 and len(h.sexpr()) < 400) or (i in keep and (syms[i] & gsym) and len(syms[i]) <= 14)]
        return small, (tiny, tiny_nd, tiny_1), first, rest
    return first + rest


_ALL_GROUND = [None]


def _const_classes(ground):
    """equalities  c == d  between integer constants among the ground facts (e.g. a callee's field equal to a parameter):
    multipliers are matched modulo these"""
    parent = {}

    def find(x):
        while parent.get(x, x) != x:
            x = parent[x]
        return x
    for h in ground:
        if z3.is_eq(h) and all(z3.is_const(a) and a.decl().kind() == z3.Z3_OP_UNINTERPRETED and z3.is_int(a) for a in h.children()):
            a, b = (find(c.decl().name()) for c in h.children())
            if a != b:
                parent[a] = b
    return find


def _instantiate(quants, ground, rounds, cap, seen_inst, unfold_defs=True, unfold_rounds=99):
    inst, pairwise = [], []
    if cap <= 0:
        return []
    find = _const_classes(_ALL_GROUND[0] if _ALL_GROUND[0] is not None else ground)

    def same_const(a, b):
        if a.eq(b):
            return True
        return (z3.is_const(a) and z3.is_const(b) and a.decl().kind() == z3.Z3_OP_UNINTERPRETED and b.decl().kind() == z3.Z3_OP_UNINTERPRETED
                and find(a.decl().name()) == find(b.decl().name()))
    for round_no in range(rounds):
        sel = _ground_selects(ground + inst)
        apps = {}
        for f in ground + inst:
            for name, i, t in _ground_apps_one(f):
                apps.setdefault(name, {})[i] = t
        new = []
        for q in quants:
            nv = q.num_vars()
            dp = _def_pattern(q)
            if dp is not None and (not unfold_defs or round_no >= unfold_rounds) and dp[0] != "POW":
                continue
            if dp is not None:
                # defining equation of an opaque specification function: unfold it at every ground application
                for t in list(apps.get(dp[0], {}).values()):
                    vals = [None] * nv
                    ok = True
                    for a, (kind, v) in zip(t.children(), dp[1]):
                        if kind == "var":
                            if vals[v] is not None and not vals[v].eq(a):
                                ok = False
                            vals[v] = a
                        elif not z3.simplify(a).eq(z3.simplify(v)):
                            ok = False
                    if not ok or None in vals:
                        continue
                    f = z3.substitute_vars(q.body(), *vals)
                    if f.get_id() not in seen_inst:
                        seen_inst.add(f.get_id())
                        new.append(f)
                continue
            body = q.body()
            reads = _quant_reads(q)
            # pairwise facts  forall i, j. ... A[i] ... A[j] ...  (monotonicity): all pairs of the ground indices of A (few)
            if nv == 2:
                single = [(arr, idx) for arr, idx in reads if z3.is_var(idx)]
                arrs = {a for a, _ in single}
                if len(single) >= 2 and len(arrs) == 1 and {z3.get_var_index(i) for _, i in single} == {0, 1}:
                    gis = list(sel.get(next(iter(arrs)), {}).values())[:7]
                    for g1 in gis:
                        for g2 in gis:
                            if g1.eq(g2):
                                continue
                            f = z3.substitute_vars(body, g1, g2)
                            if f.get_id() not in seen_inst and len(pairwise) < 40:
                                seen_inst.add(f.get_id())
                                pairwise.append(f)
            for arr, idx in reads:
                for gi in list(sel.get(arr, {}).values()):
                    subs = []
                    if nv == 1 and z3.is_var(idx):
                        subs.append([gi])
                    elif nv == 1:
                        v = _solve_offset(idx, gi)
                        if v is not None:
                            subs.append([v])
                    elif nv == 2 and z3.is_app(idx) and idx.decl().kind() == z3.Z3_OP_ADD and idx.num_args() == 2:
                        # idx = v_hi * c + v_lo   (de Bruijn: var 1 is the first bound variable)
                        m, lo = idx.arg(0), idx.arg(1)
                        if z3.is_var(m):
                            m, lo = lo, m
                        if z3.is_app(m) and m.decl().kind() == z3.Z3_OP_MUL and m.num_args() == 2 and z3.is_var(lo):
                            vk, c = (m.arg(0), m.arg(1)) if z3.is_var(m.arg(0)) else (m.arg(1), m.arg(0))
                            if z3.is_var(vk) and not z3.is_var(c):
                                for a_, c_, b_ in _split_affine(gi):
                                    if same_const(c_, z3.simplify(c)):
                                        vals = [None, None]
                                        vals[z3.get_var_index(vk)] = a_
                                        vals[z3.get_var_index(lo)] = b_
                                        if None not in vals:
                                            subs.append(list(reversed(vals)))
                    for sub in subs:
                        try:
                            f = z3.substitute_vars(body, *reversed(sub)) if nv > 1 else z3.substitute_vars(body, sub[0])
                        except z3.Z3Exception:
                            continue
                        if f.get_id() not in seen_inst:
                            seen_inst.add(f.get_id())
                            new.append(f)
                if len(inst) + len(new) > cap:
                    break
        if not new:
            break
        inst.extend(new[: cap - len(inst)])
    return inst + pairwise      # pairwise (monotonicity) instances last, with their own small budget


_QF_CACHE = {}


def _quantifier_free(f):
    hit = _QF_CACHE.get(f.get_id())
    if hit is not None and hit[0].eq(f):
        return hit[1]
    ok = True
    st_, seen = [f], set()
    while st_:
        x = st_.pop()
        if x.get_id() in seen:
            continue
        seen.add(x.get_id())
        if z3.is_quantifier(x):
            ok = False
            break
        if z3.is_app(x):
            st_.extend(x.children())
    _QF_CACHE[f.get_id()] = (f, ok)
    return ok


def definition_hyps(ob):
    """only the definitional axioms reachable from the goal's symbols (transitively) + small quantifier-free facts"""
    hyps = list(ob.hyps)
    syms = [symbols(h) for h in hyps]
    defs = {}
    for i, h in enumerate(hyps):
        d = _defines(h)
        if d is not None:
            defs.setdefault(d, []).append(i)
    S = set(symbols(ob.goal))
    keep = set()
    work = list(S)
    while work:
        x = work.pop()
        for i in defs.get(x, []):
            if i not in keep:
                keep.add(i)
                for y in syms[i]:
                    if y not in S:
                        S.add(y)
                        work.append(y)
    for i, h in enumerate(hyps):
        if i not in keep and not z3.is_quantifier(h) and len(syms[i]) <= 4:
            t = h.sexpr()
            if len(t) < 600 and "forall" not in t and "exists" not in t:
                keep.add(i)
    return [hyps[i] for i in sorted(keep)]


def to_smt2(ob, extra_axioms=(), hyps=None, plain=False, som=False):
    s = z3.Solver()
    # som: polynomial normal form (sum of monomials) for every term, so that equal index polynomials such as (k+1)*n + j and
    # k*n + n + j become the same term (used for the quantifier-free variants, where nothing else would identify them cheaply)
    norm = (lambda f: z3.simplify(f, som=True)) if som else (lambda f: f)
    for h in (ob.hyps if hyps is None else hyps):
        s.add(norm(h))
    for a in extra_axioms:
        s.add(norm(a))
    if som:
        s.add(norm(z3.Not(ob.goal_sk)))
        return s.to_smt2()
    # universally quantified goals are proved for fresh constants (forall-introduction); the explicit instances added by
    # pre_instantiate talk about exactly these constants
    s.add(z3.Not(getattr(ob, "goal_sk", None) if getattr(ob, "goal_sk", None) is not None and not plain else ob.goal))
    return s.to_smt2()


def _uses(ob, name):
    txt = ob._smt
    return name in txt


Z3_CLI = os.environ.get("PYVC_Z3", "z3-new")
# first pass: everything in parallel, short budgets.  "x@api" = the same query through z3's Python API in a child process
SCHEDULE = (("defs", 0, 2), ("core", 0, 3), ("coreu", 0, 3), ("core1", 0, 3), ("core!nlsat", 0, 3), ("ground!nlsat", 0, 3), ("ground", 0, 4), ("rel2", 0, 3), ("all", 0, 4), ("all@api", 0, 4), ("rel2@api", 1, 3), ("all@api!nombqi", 1, 3), ("rel2", 2, 3),
            ("rel20", 0, 3), ("all0", 0, 4), ("defs0", 0, 2), ("all", 3, 3), ("rel2@api!nombqi", 4, 3), ("all@api", 5, 3), ("rel1", 7, 3), ("all!nombqi", 6, 3), ("rel3@api", 8, 3))
# many short attempts: for the quantified queries generated here a proof, when the instantiation order is favourable, is found
# within a second or two; an unfavourable order is not helped by waiting, but by another seed / hypothesis selection / front end

# second pass: only what is still undecided (at most FAIL_CAP obligations per clause), few at a time, long budgets
RETRY_SCHEDULE = (("core", 1, 20), ("coreu", 1, 15), ("core1", 1, 15), ("core!nlsat", 0, 15), ("ground!nlsat", 0, 15), ("ground", 1, 20), ("all@api", 10, 20), ("all", 11, 15), ("all0", 3, 15), ("rel20", 2, 10), ("all0@api", 1, 15), ("defs", 7, 8), ("rel3@api!nombqi", 12, 8), ("rel2@api", 13, 10), ("all!nombqi", 42, 10),
                  ("rel1@api", 14, 10), ("all@api", 15, 30))
FALSE_GOAL_SCHEDULE = (("all", 0, 4), ("all@api", 1, 8), ("all", 2, 12))      # `pc => False` (an exceptional edge that must be unreachable): quick, a refutation needs a model anyway


def _run(args):
    """one obligation: z3 CLI in a subprocess (hard timeout), escalating schedule of seeds/budgets"""
    idx, smts, timeout_ms, seeds = args
    t0 = time.time()
    sched = SCHEDULE if len(seeds) > 1 else (("all", 0, max(1, timeout_ms // 1000)),)
    if seeds == "retry":
        sched = RETRY_SCHEDULE
    if seeds == "false-goal":
        sched = FALSE_GOAL_SCHEDULE
    paths = {}
    for k, smt in smts.items():
        fd, pth = tempfile.mkstemp(suffix=".smt2", prefix="pyvc_")
        with os.fdopen(fd, "w") as f:
            f.write(smt)
        paths[k] = pth
    last, info = "unknown", ""
    extra_paths = []
    try:
        for sel0, seed, secs in sched:
            sel0, _, opt = sel0.partition("!")
            sel, _, how = sel0.partition("@")
            if sel not in paths:
                continue
            path = paths[sel]
            if opt == "nlsat":
                if how == "api":
                    continue
                npath = path + ".nlsat.smt2"
                if not os.path.exists(npath):
                    with open(npath, "w") as f:
                        f.write(open(path).read().replace("(check-sat)", "(check-sat-using (then simplify solve-eqs qfnra-nlsat))"))
                    extra_paths.append(npath)
                path = npath
            if how == "api":
                cmd = [sys.executable, "-m", "pyvc.z3worker", path, str(secs * 1000), str(seed), opt]
            else:
                cmd = [Z3_CLI, f"-T:{secs}", f"smt.random_seed={seed}", f"sat.random_seed={seed}"] + (["smt.mbqi=false"] if opt == "nombqi" else []) + [path]
            try:
                out = subprocess.run(cmd, capture_output=True, text=True, timeout=secs + 5,
                                     cwd=os.path.dirname(os.path.dirname(os.path.abspath(__file__)))).stdout
            except subprocess.TimeoutExpired:
                out = "timeout"
            first = out.strip().splitlines()[0].strip() if out.strip() else "unknown"
            if first == "unsat":
                return idx, "unsat", "", (time.time() - t0) * 1000, "z3-5.1" + ("-api" if how == "api" else "") + (f"(seed {seed})" if seed else "") + ("" if sel == "all" and not opt else f"[{sel}{'!' + opt if opt else ''}]")
            if first == "sat" and (sel not in ("all", "all0") or opt == "nlsat"):
                continue                  # a model of a weakened query proves nothing
            if first == "sat":
                if how == "api":
                    m = out
                else:
                    try:
                        m = subprocess.run([Z3_CLI, f"-T:{secs}", "-model", path], capture_output=True, text=True, timeout=secs + 5).stdout
                    except subprocess.TimeoutExpired:
                        m = ""
                return idx, "sat", m[:6000], (time.time() - t0) * 1000, "z3-5.1"
            last, info = "unknown", first
    finally:
        for pth in list(paths.values()) + extra_paths:
            os.unlink(pth)
    return idx, last, info, (time.time() - t0) * 1000, "z3-5.1"


def _cvc5(smt, timeout_s=20):
    with tempfile.NamedTemporaryFile("w", suffix=".smt2", delete=False) as f:
        f.write("(set-logic ALL)\n" + smt)
        path = f.name
    try:
        out = subprocess.run(["/usr/bin/cvc5", f"--tlimit={timeout_s * 1000}", path], capture_output=True, text=True, timeout=timeout_s + 5)
        r = out.stdout.strip().splitlines()[0] if out.stdout.strip() else "unknown"
    except Exception:
        r = "unknown"
    finally:
        os.unlink(path)
    return r


class Rec:
    """picklable obligation record (SMT-LIB text instead of z3 terms)"""

    def __init__(self, ob, smts):
        self.name, self.kind, self.where, self.func, self.clause = ob.name, ob.kind, ob.where, ob.func, ob.clause
        self.status, self.time_ms, self.backend, self.model = ob.status, ob.time_ms, ob.backend, ob.model
        self.smts = smts
        self._smt = (smts or {}).get("all", "")
        self.nhyps = len(ob.hyps)
        self.false_goal = bool(z3.is_false(z3.simplify(ob.goal))) if smts is not None else False
        import hashlib
        self.h = hashlib.sha256(self._smt.encode()).hexdigest()[:24] if smts else None

    def key(self):
        return f"{self.func}::{self.kind}::{self.clause}"


def prepare(ob):
    """z3 obligation -> Rec (done in the process that generated the obligation)"""
    if ob.status == "trivial" or z3.is_true(z3.simplify(ob.goal)):
        ob.status = "trivial"
        ob.time_ms = 0.0
        ob.backend = "simplifier"
        return Rec(ob, None)
    if not ob.kind.startswith("canary") and z3.is_false(z3.simplify(ob.goal)) and len(ob.hyps) >= 2 and not z3.is_quantifier(ob.hyps[-1]):
        # an exceptional edge that must be unreachable, `pc => False`: the same statement with the last assumption (the raising
        # condition) as the thing to refute, `pc[:-1] => not pc[-1]`, so that goal-directed hypothesis selection applies
        import copy as _copy
        ob2 = _copy.copy(ob)
        ob2.hyps = list(ob.hyps[:-1])
        ob2.goal = z3.Not(ob.hyps[-1])
        rec = prepare(ob2)
        rec.name, rec.kind, rec.where, rec.func, rec.clause = ob.name, ob.kind, ob.where, ob.func, ob.clause
        return rec
    smt = to_smt2(ob)
    extra = []
    if "POW" in smt:
        extra += pow_axioms(mono="POW_MONO" in (getattr(ob, "lemmas", None) or []))
    if "SUM" in smt and ob.kind != "lemma":
        extra += sum_axioms_nonrecursive()
    lem = getattr(ob, "lemmas", None)
    if lem:
        from .lemmas import sum_lemma_axiom
        extra += [sum_lemma_axiom(n) for n in lem if n != "POW_MONO"]
        if "SUM" not in smt:
            extra += sum_axioms_nonrecursive()
    if "IDENT" in smt:
        from .core import ident_axiom
        extra.append(ident_axiom())
    if "PICKLE" in smt or "VERIFIED_" in smt or "SHA256HEX" in smt:
        from . import oslib
        extra += oslib.axioms()
    extra0 = list(extra)
    core_ground, inst_tiny = None, None
    if not ob.kind.startswith("canary") and ob.kind != "lemma" and any(z3.is_quantifier(h) or z3.is_and(h) for h in ob.hyps):
        try:
            ob.goal_sk, _ = skolemize(ob.goal)
            core_ground, (inst_tiny, inst_tiny_nd, inst_tiny_1), inst_first, inst_rest = pre_instantiate(list(ob.hyps) + [a_ for a_ in extra if z3.is_quantifier(a_)], ob.goal_sk, parts=True)
            extra = extra + inst_first + inst_rest
        except z3.Z3Exception:
            ob.goal_sk = None
            core_ground, inst_tiny = None, None
    if extra:
        smt = to_smt2(ob, extra)
    smts = {"all": smt}
    if not ob.kind.startswith("canary") and len(ob.hyps) > 12 and ob.kind != "lemma":
        for d in (1, 2, 3):
            smts[f"rel{d}"] = to_smt2(ob, extra, hyps=relevant_hyps(ob, d))
        smts["defs"] = to_smt2(ob, extra, hyps=definition_hyps(ob))
        # quantifier-free core: ground hypotheses + the explicit instances (decided by plain arithmetic / nlsat, no E-matching)
        gh = [h for h in ob.hyps if _quantifier_free(h)]
        ge = [h for h in extra if _quantifier_free(h)]
        if len(gh) + len(ge) >= 1 and getattr(ob, "goal_sk", None) is not None and _quantifier_free(ob.goal_sk):
            smts["ground"] = to_smt2(ob, ge, hyps=gh, som=True)
        if core_ground is not None and _quantifier_free(ob.goal_sk):
            # goal-directed core: only the ground facts connected to the goal and the instances obtained from them
            smts["core"] = to_smt2(ob, [h for h in extra0 + inst_tiny if _quantifier_free(h)], hyps=[h for h in core_ground if _quantifier_free(h)], som=True)
            smts["coreu"] = to_smt2(ob, [h for h in extra0 + inst_tiny_nd if _quantifier_free(h)], hyps=[h for h in core_ground if _quantifier_free(h)], som=True)
            smts["core1"] = to_smt2(ob, [h for h in extra0 + inst_tiny_1 if _quantifier_free(h)], hyps=[h for h in core_ground if _quantifier_free(h)], som=True)
        if getattr(ob, "goal_sk", None) is not None:
            # the same queries without forall-introduction and explicit instances: the solver's own E-matching order
            smts["all0"] = to_smt2(ob, extra0, plain=True)
            smts["rel20"] = to_smt2(ob, extra0, hyps=relevant_hyps(ob, 2), plain=True)
            smts["defs0"] = to_smt2(ob, extra0, hyps=definition_hyps(ob), plain=True)
    return Rec(ob, smts)


_FAILED_KEYS = {}
FAIL_CAP = 2      # after this many undischarged obligations of one clause, further ones of that clause are not attempted


def _run_capped(args):
    idx, smts, timeout_ms, seeds, key = args
    if key is not None and _FAILED_KEYS.get(key, 0) >= FAIL_CAP:
        return idx, "unknown", "not attempted: the same clause already failed %d times in this run" % FAIL_CAP, 0.0, "skipped"
    r = _run((idx, smts, timeout_ms, seeds))
    if key is not None and r[1] != "unsat":
        _FAILED_KEYS[key] = _FAILED_KEYS.get(key, 0) + 1
    return r


def discharge_records(recs, workers=None, timeout_ms=None):
    timeout_ms = timeout_ms or TIMEOUT_MS
    workers = workers or min(14, os.cpu_count() or 4)
    _FAILED_KEYS.clear()
    todo = []
    for i, r in enumerate(recs):
        if r.status is not None:
            continue          # already decided (trivial, or decided by concrete execution)
        if r.kind.startswith("canary"):
            todo.append((i, r.smts, 1500, (0,), None))
        elif getattr(r, "false_goal", False):
            todo.append((i, r.smts, timeout_ms, "false-goal", r.key()))
        else:
            todo.append((i, r.smts, timeout_ms, (0, 7, 42), r.key()))
    if todo:
        from concurrent.futures import ThreadPoolExecutor
        # round-robin over the clauses: the first tasks started belong to different clauses, so that a failing clause is
        # recognised after its first obligations and the remaining ones of that clause are not attempted (FAIL_CAP)
        groups = {}
        for t in todo:
            groups.setdefault(t[4], []).append(t)
        order = []
        while any(groups.values()):
            for k in list(groups):
                if groups[k]:
                    order.append(groups[k].pop(0))
        todo = order
        with ThreadPoolExecutor(max_workers=min(workers, len(todo))) as pool:
            results = list(pool.map(_run_capped, todo))
        for idx, status, info, ms, backend in results:
            r = recs[idx]
            r.status, r.time_ms, r.backend, r.model = status, ms, backend, info
        # second chance for the undecided ones, without contention (verdicts must not flip under load)
        again = [(i, recs[i].smts, timeout_ms, "retry") for i, r in enumerate(recs)
                 if r.status == "unknown" and not r.kind.startswith("canary") and r.backend != "skipped"
                 and not getattr(r, "false_goal", False)]
        # retry at most a few per clause
        per = {}
        again2 = []
        for a in again:
            k = recs[a[0]].key()
            per[k] = per.get(k, 0) + 1
            if per[k] <= FAIL_CAP:
                again2.append(a)
        again = again2
        if again:
            with ThreadPoolExecutor(max_workers=min(8, len(again))) as pool:
                results = list(pool.map(_run, again))
            for idx, status, info, ms, backend in results:
                r = recs[idx]
                r.time_ms = (r.time_ms or 0) + ms
                if status != "unknown":
                    r.status, r.backend, r.model = status, backend + "(retry)", info
    return recs


def discharge(obls, workers=None, timeout_ms=None, second_backend=False):
    """z3 obligations -> statuses (developer tools; the check CLI prepares records in the generating process)"""
    recs = [prepare(o) for o in obls]
    discharge_records(recs, workers=workers, timeout_ms=timeout_ms)
    for o, r in zip(obls, recs):
        o.status, o.time_ms, o.backend, o.model = r.status, r.time_ms, r.backend, r.model
        o._smt = r._smt
    return obls
