"""bounded stand-in: evaluate the run-time reading of every contract on the real functions (developer / thorough tier)"""
import json, os, subprocess, sys
sys.path.insert(0, '/verif')
from pyvc.specs import SpecDB
db = SpecDB('/verif/contracts'); db.load()
seed = int(sys.argv[1]) if len(sys.argv) > 1 else 11
n = int(sys.argv[2]) if len(sys.argv) > 2 else 1500
env = dict(os.environ, PYTHONPATH='/repo/src:/verif')
bad = 0
for q, c in db.contracts.items():
    if c.params is None or c.opts.get('no_rt'):
        continue
    out = f'/tmp/rt_{os.getpid()}.json'
    subprocess.run(['/venv/bin/python', '-m', 'pyvc.rt_runner', 'search', c.file, q, str(seed), str(n), out], cwd='/verif', env=env,
                   capture_output=True, timeout=300)
    try:
        d = json.load(open(out)); os.unlink(out)
    except Exception as e:
        print(q, 'ERROR', e); bad += 1; continue
    if d.get('status') != 'none':
        bad += 1
        print(q.split('traffic_weaver.')[-1], d.get('status'), 'valid=', d.get('valid'), (d.get('violated') or {}).get('clause', ''), str((d.get('violated') or {}).get('observed', ''))[:160])
    else:
        print(q.split('traffic_weaver.')[-1], 'ok valid=', d.get('valid'))
sys.exit(1 if bad else 0)
