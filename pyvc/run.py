"""Developer runner:  python3-vt -m pyvc.run <contracts-module> <function-qualname-suffix> ..."""
import sys
import time
import traceback

from .modules import Modules
from .specs import SpecDB, verify_function
from .solve import discharge
from .core import EngineError


def main(argv):
    t0 = time.time()
    db = SpecDB("/verif/contracts")
    db.load()
    mods = Modules()
    pats = argv or [""]
    quals = [q for q, c in db.contracts.items() if c.params is not None and not c.opts.get('assumed_contract') and not c.opts.get('rt_only') and any(p in q for p in pats)]
    bad = 0
    for q in quals:
        t1 = time.time()
        try:
            r = verify_function(db, mods, q)
        except EngineError as e:
            print(f"ENGINE-ERROR {q}: {e}")
            traceback.print_exc()
            bad += 1
            continue
        discharge(r.obligations)
        can = [o for o in r.obligations if o.kind.startswith("canary")]
        r.obligations = [o for o in r.obligations if not o.kind.startswith("canary")]
        if can and all(o.status == "unsat" for o in can):
            print(f"   VACUOUS: all canaries of {q} refuted")
            bad += 1
        n = len(r.obligations)
        ok = sum(1 for o in r.obligations if o.status in ("unsat", "trivial"))
        tm = sum(o.time_ms or 0 for o in r.obligations)
        print(f"{q}: paths={r.paths} obligations={n} discharged={ok} solver={tm:.0f}ms gen={time.time() - t1:.1f}s")
        for o in r.obligations:
            if o.status not in ("unsat", "trivial"):
                bad += 1
                print(f"   FAILED {o.status:8s} {o.kind}::{o.clause} @{o.where} ({o.time_ms:.0f} ms)  {o.name.split('::')[-1]}  [{getattr(o, 'backend', '')}] {str(getattr(o, 'model', '') or '')[:120]}")
                if o.status == "sat" and "-v" in sys.argv:
                    print("      " + (o.model or "").replace("\n", "\n      ")[:1500])
    print(f"total {time.time() - t0:.1f}s, failures={bad}")
    return 1 if bad else 0


if __name__ == "__main__":
    sys.exit(main([a for a in sys.argv[1:] if not a.startswith("-")]))
