"""Contract-level lemmas (composition lemmas, sum/induction lemmas).  Each lemma is a set of
obligations over z3 terms built from the *contracts* (never from function bodies)."""
from .core import *

LEMMAS = {}


def lemma(name):
    def deco(f):
        LEMMAS[name] = f
        return f
    return deco


def lemma_obligations(db, modules, name):
    if name not in LEMMAS:
        raise EngineError(f"unknown lemma {name}")
    return LEMMAS[name](db, modules)
