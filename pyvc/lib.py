"""Operations on symbolic values and the *assumed* library contracts (NumPy, builtins, stdlib).

Every model in this file is part of the trusted base: it states what the library call returns
(and when it raises) over the sequence model of DESIGN.md §2.3/§2.5.  The names of the models
actually used by a run are recorded in `interp.lib_used` and end up in the evidence file.
"""
import ast
import builtins
import json
import os
import subprocess

import z3

from .core import *


class SliceV(V):
    def __init__(self, lo, hi, step):
        self.lo, self.hi, self.step = lo, hi, step

    def __repr__(self):
        return f"Slice({self.lo},{self.hi},{self.step})"


# --------------------------------------------------------------------------- constants

def const(v):
    if v is None:
        return NONE
    if isinstance(v, bool):
        return BoolN(v)
    if isinstance(v, int):
        return IntN(v)
    if isinstance(v, float):
        from fractions import Fraction
        fr = Fraction(v)
        return Num(z3.RealVal(f"{fr.numerator}/{fr.denominator}") if fr.denominator != 1 else z3.RealVal(fr.numerator), "real")
    if isinstance(v, str):
        return StrV(v)
    if v is Ellipsis:
        return AnyV("...")
    raise EngineError(f"constant {v!r}")


def exc_subclass(cls, handler):
    import urllib.error
    ns = dict(vars(builtins))
    ns["URLError"] = urllib.error.URLError
    ns["HTTPError"] = urllib.error.HTTPError
    a, b = ns.get(cls), ns.get(handler)
    if a is None or b is None:
        return cls == handler or handler in ("Exception", "BaseException")
    return issubclass(a, b)


# --------------------------------------------------------------------------- sequences


class RSeq:
    """read view of a sequence value: length + elem, resolved against one heap"""

    def __init__(self, length, elem, kind, dtype, is_nd=True, is_f64=True, nanmask=None, arr=None):
        self.length = length
        self.elem = elem
        self.kind = kind
        self.dtype = dtype
        self.is_nd = is_nd
        self.is_f64 = is_f64
        self.nanmask = nanmask
        self.arr = arr
        self.contig = None          # (base RSeq with .arr or None, offset term) for contiguous views
        self.valid_total = None
        self.prov = None            # provenance used by the derived library lemmas (take_of / unique_of / isin_of)

    def conc_len(self):
        return conc_int(self.length)


def is_seq(st, v):
    if isinstance(v, TupV):
        return True
    return isinstance(v, Ref) and isinstance(st.heap.get(v.id), (SeqVal, ViewVal))


def rseq(I, st, v, heap=None):
    """sequence reading of a value (Ref to SeqVal/ViewVal, TupV)"""
    heap = st.heap if heap is None else heap
    if isinstance(v, TupV):
        items = v.items
        return RSeq(z3.IntVal(len(items)), _items_elem(items), "tuple", _items_dtype(items), False, False)
    if isinstance(v, Ref):
        o = heap.get(v.id)
        if isinstance(o, SeqVal):
            r = RSeq(o.length, o.elem, o.kind, o.dtype, o.is_nd, o.is_f64, o.nanmask, getattr(o, "arr", None))
            r.valid_total = getattr(o, "valid_total", None)
            r.prov = getattr(o, "prov", None)
            r.src_id = v.id
            return r
        if isinstance(o, ViewVal):
            b = heap[o.base]
            if isinstance(b, SeqVal):
                r = RSeq(o.length, lambda i, o=o, b=b: b.elem(o.idxmap(i)), "ndarray", o.dtype)
                r.is_view = True
                off = o.idxmap(z3.IntVal(0))
                step = z3.simplify(o.idxmap(z3.IntVal(1)) - off)
                if z3.is_int_value(step) and step.as_long() == 1:
                    r.contig = (rseq(I, st, Ref(o.base), heap=heap), off)
                return r
            if isinstance(b, Seq2Val):
                return RSeq(o.length, lambda i, o=o, b=b: b.elem2(*o.idxmap(i)), "ndarray", o.dtype)
    raise EngineError(f"not a sequence: {v} -> {heap.get(v.id) if isinstance(v, Ref) else None}")


def _items_dtype(items):
    if all(isinstance(x, Num) and x.kind == "int" for x in items) and items:
        return "int"
    if all(isinstance(x, Num) for x in items) and items:
        return "real"
    return "obj"


def _items_elem(items):
    dt = _items_dtype(items)

    def elem(i):
        c = conc_int(i)
        if c is not None:
            if -len(items) <= c < len(items):
                return items[c]
            raise EngineError("concrete index out of range in model")
        if dt == "obj":
            raise EngineError("symbolic index into a heterogeneous list")
        acc = items[-1]
        for k in range(len(items) - 2, -1, -1):
            acc = ite_val(i == k, items[k], acc)
        return acc
    return elem


def ite_val(c, a, b):
    if a is b:
        return a
    cs = z3.simplify(c) if z3.is_expr(c) else z3.BoolVal(bool(c))
    if z3.is_true(cs):
        return a
    if z3.is_false(cs):
        return b
    if isinstance(a, Num) and isinstance(b, Num):
        if a.kind == b.kind:
            return Num(z3.If(c, a.t, b.t), a.kind)
        if a.kind == "bool" or b.kind == "bool":
            return Num(z3.If(c, to_real(a), to_real(b)), "real")
        return Num(z3.If(c, to_real(a), to_real(b)), "real")
    if isinstance(a, NoneV) and isinstance(b, NoneV):
        return a
    if isinstance(a, StrV) and isinstance(b, StrV):
        return StrV(z3.If(c, a.term(), b.term()))
    if isinstance(a, (Num, NoneV, OptV)) and isinstance(b, (Num, NoneV, OptV)):
        oa, ob = as_opt(a), as_opt(b)
        return OptV(z3.If(c, oa.isnone, ob.isnone), ite_val(c, oa.val, ob.val))
    if isinstance(a, AnyV) or isinstance(b, AnyV):
        return AnyV("ite")
    raise EngineError(f"cannot merge values {a} / {b}")


def as_opt(v):
    if isinstance(v, OptV):
        return v
    if isinstance(v, NoneV):
        return OptV(z3.BoolVal(True), Num(z3.RealVal(0), "real"))
    if isinstance(v, Num):
        return OptV(z3.BoolVal(False), v)
    raise EngineError("as_opt")


def new_seq(st, kind, dtype, length, elem, **kw):
    return st.alloc(SeqVal(kind, dtype, length, elem, **kw))


def new_list(I, st, vals):
    vals = list(vals)
    return st.alloc(SeqVal("list", _items_dtype(vals), len(vals), _items_elem(vals), items=vals))


def fresh_array(dtype, base="a"):
    if dtype == "int":
        return z3.Const(fresh_name(base), IARR)
    if dtype == "bool":
        return z3.Const(fresh_name(base), z3.ArraySort(z3.IntSort(), z3.BoolSort()))
    return z3.Const(fresh_name(base), ARR)


def arr_elem(A, dtype):
    k = {"int": "int", "bool": "bool"}.get(dtype, "real")
    return lambda i: Num(z3.Select(A, i), k)


def fresh_seq(st, kind, dtype, length, base="a", **kw):
    A = fresh_array(dtype, base)
    sv = SeqVal(kind, dtype, length, arr_elem(A, dtype), **kw)
    sv.arr = A
    return st.alloc(sv)


def array_term(I, st, rs):
    """z3 Array term equal to the sequence (for SUM/MEAN/STD): fresh constant + defining axiom."""
    if rs.arr is not None and rs.arr.sort() == ARR:
        return rs.arr
    A, ax = named_array(lambda k: to_real(rs.elem(k)))
    if ax is not None:
        done = st.ghost.setdefault("__arrterm", {})
        if ax.get_id() not in done:
            done[ax.get_id()] = (A, ax)
            st.pc.append(ax)
    return A


def _qf(f):
    return not any(z3.is_quantifier(x) for x in _subterms(f, 400))


def _subterms(t, limit):
    seen, stack, n = set(), [t], 0
    while stack and n < limit:
        x = stack.pop()
        if x.get_id() in seen:
            continue
        seen.add(x.get_id())
        n += 1
        yield x
        if z3.is_app(x):
            stack.extend(x.children())
    if stack:
        yield z3.ForAll([z3.Int("__big")], z3.Int("__big") == z3.Int("__big"))   # treat huge formulas as non-QF


_ENT_CACHE = {}


def entails(st, c):
    """pc => c ?   (sound under-approximation of entailment: quick solver calls, a failure means "not known")"""
    key = (tuple(h.get_id() for h in st.pc), c.get_id())       # the whole path condition identifies the context
    hit = _ENT_CACHE.get(key)
    if hit is not None:
        return hit[0]
    r = _entails(st, c)
    if len(_ENT_CACHE) > 20000:
        _ENT_CACHE.clear()
    # z3 AST ids are unique among *live* terms only: the cache entry keeps the terms alive so that an id cannot be recycled
    _ENT_CACHE[key] = (r, c, list(st.pc))
    return r


def _has_select(c):
    for x in _subterms(c, 200):
        if z3.is_app(x) and x.decl().kind() == z3.Z3_OP_SELECT:
            return True
    return False


def _entails(st, c):
    solver = z3.Solver()
    solver.set("timeout", 150)
    skipped = False
    for h in st.pc:
        if _qf(h):
            solver.add(h)
        else:
            skipped = True
    solver.add(z3.Not(c))
    if solver.check() == z3.unsat:
        return True
    if not _has_select(c):
        # pure index arithmetic (signs of products such as k*n): only the small select-free bounds, nonlinear reasoning allowed
        solver = z3.Solver()
        solver.set("timeout", 400)
        n_small = 0
        for h in st.pc:
            if _qf(h) and not _has_select(h) and len(h.sexpr()) < 200:
                solver.add(h)
                n_small += 1
        solver.add(z3.Not(c))
        if n_small and solver.check() == z3.unsat:
            return True
    if not skipped or not _has_select(c):
        return False
    # second attempt with the quantified hypotheses as well (bounds of index arrays usually come from them)
    solver = z3.Solver()
    solver.set("timeout", 400)
    for h in st.pc:
        if len(h.sexpr()) < 3000:
            solver.add(h)
    solver.add(z3.Not(c))
    return solver.check() == z3.unsat


def resolve(st, t):
    """simplify a term under the path condition: decide top-level if-then-else conditions"""
    t = z3.simplify(t)
    if st is None:
        return t
    for _ in range(6):
        if z3.is_app(t) and t.decl().kind() == z3.Z3_OP_ITE:
            c, a, b = t.children()
            if entails(st, c):
                t = z3.simplify(a)
                continue
            if entails(st, z3.Not(c)):
                t = z3.simplify(b)
                continue
        break
    if z3.is_app(t) and t.decl().kind() in (z3.Z3_OP_ADD, z3.Z3_OP_SUB, z3.Z3_OP_MUL) and t.num_args() <= 4:
        kids = [resolve_shallow(st, k) for k in t.children()]
        t = z3.simplify(t.decl()(*kids))
    return t


def resolve_shallow(st, t):
    if z3.is_app(t) and t.decl().kind() == z3.Z3_OP_ITE:
        return resolve(st, t)
    return t


def term_size(t, limit=60):
    n, stack, seen = 0, [t], set()
    while stack and n <= limit:
        x = stack.pop()
        if x.get_id() in seen:
            continue
        seen.add(x.get_id())
        n += 1
        if z3.is_app(x):
            stack.extend(x.children())
    return n


LETBIND = True


def letbind_scalar(I, st, v, name):
    """`name = <large real expression>`: name the value by a fresh constant (definitional equation in the path condition)"""
    if isinstance(v, Num) and v.kind == "real" and not z3.is_const(v.t) and term_size(v.t, 40) > 14:
        c = z3.Real(fresh_name(name))
        st.pc.append(c == v.t)
        return Num(c, "real")
    return v


def letbind(I, st, v, name):
    """`name = <array expression>`: give a large element-wise expression a name (array constant + defining axiom), so that
    later conditions mention name[i] instead of repeating the whole expression.  Purely definitional."""
    if not isinstance(v, Ref) or not LETBIND:
        return
    o = st.heap.get(v.id)
    if not isinstance(o, SeqVal) or o.kind != "ndarray" or o.dtype != "real" or getattr(o, "arr", None) is not None \
            or o.nanmask is not None or o.items is not None:
        return
    try:
        probe = o.elem(z3.Int("k!probe"))
    except EngineError:
        return
    if not isinstance(probe, Num) or term_size(probe.t) < 25:
        return
    rs = rseq(I, st, v)
    A = array_term(I, st, rs)
    n = SeqVal(o.kind, o.dtype, o.length, arr_elem(A, "real"), is_nd=o.is_nd, is_f64=o.is_f64)
    n.arr = A
    st.heap[v.id] = n


def norm_index(i, length, st=None):
    """NumPy/Python index normalisation: negative wraps once (decided under the path condition when a state is given)"""
    c = conc_int(i)
    if c is not None:
        return i if c >= 0 else z3.simplify(length + c)
    if st is not None and not getattr(st, "_no_resolve", False):
        if entails(st, i >= 0):
            return z3.simplify(i)
        if entails(st, i < 0):
            return z3.simplify(i + length)
    return z3.If(i < 0, i + length, i)


def load_elem(I, st, rs, idx, node, what="index"):
    i = norm_index(to_int(idx), rs.length, st)
    excs, ok = I.may_raise(st, z3.Not(z3.And(i >= 0, i < rs.length)), "IndexError", f"{what} out of bounds", I.where(node))
    res = list(excs)
    if ok is not None:
        res.append((ok, rs.elem(i)))
    return res


def store_elem(I, st, ref, idx, v, node):
    o = st.heap[ref.id]
    if isinstance(o, ViewVal):
        i = norm_index(to_int(idx), o.length, st)
        excs, ok = I.may_raise(st, z3.Not(z3.And(i >= 0, i < o.length)), "IndexError", "store index", I.where(node))
        if ok is not None:
            _write(ok, o.base, o.idxmap(i), v, o.dtype)
            excs.append((ok, NONE))
        return excs
    if isinstance(o, SeqVal):
        i = norm_index(to_int(idx), o.length, st)
        excs, ok = I.may_raise(st, z3.Not(z3.And(i >= 0, i < o.length)), "IndexError", "store index", I.where(node))
        if ok is not None:
            _write(ok, ref.id, i, v, o.dtype)
            excs.append((ok, NONE))
        return excs
    raise EngineError("store into non-sequence")


def coerce_elem(v, dtype, kind):
    """value stored into an ndarray of dtype: ints are truncated on store into int arrays (not modelled: error)"""
    if kind == "ndarray" and isinstance(v, Num):
        if dtype == "real" and v.kind != "real":
            return Num(to_real(v), "real")
        if dtype == "int" and v.kind == "real":
            return Num(trunc_real(v.t), "int")
        if dtype == "int" and v.kind == "bool":
            return Num(to_int(v), "int")
    return v


def _write(st, hid, i, v, dtype):
    o = st.heap[hid]
    if isinstance(o, SeqVal):
        v = coerce_elem(v, o.dtype, o.kind)
        old = o.elem
        n = SeqVal(o.kind, o.dtype if o.kind == "ndarray" else _join_dtype(o.dtype, v), o.length,
                   lambda j, i=i, v=v, old=old: ite_val(j == i, v, old(j)), is_nd=o.is_nd, is_f64=o.is_f64, nanmask=o.nanmask)
        st.heap[hid] = n
    elif isinstance(o, Seq2Val):
        r, c = i
        v = coerce_elem(v, o.dtype, "ndarray")
        old = o.elem2
        st.heap[hid] = Seq2Val(o.dtype, o.rows, o.cols, lambda a, b, r=r, c=c, v=v, old=old: ite_val(z3.And(a == r, b == c), v, old(a, b)))
    else:
        raise EngineError("write into " + type(o).__name__)


def _join_dtype(dt, v):
    if isinstance(v, Num):
        k = "int" if v.kind in ("int", "bool") else "real"
        if dt == k:
            return dt
        if dt in ("int", "real"):
            return "real"
    return "obj"


def store_range(I, st, ref, lo, n, src_elem):
    """dst[lo:lo+n] = src  (lengths already checked)"""
    o = st.heap[ref.id]
    if isinstance(o, ViewVal):
        base = st.heap[o.base]
        if not isinstance(base, SeqVal):
            raise EngineError("slice store into 2-D view")
        # only contiguous views (offset form) are supported for range stores
        off = z3.simplify(o.idxmap(z3.IntVal(0)))
        step = z3.simplify(o.idxmap(z3.IntVal(1)) - off)
        if not (z3.is_int_value(step) and step.as_long() == 1):
            raise EngineError("range store through a strided view")
        return store_range(I, st, Ref(o.base), off + lo, n, src_elem)
    old = o.elem
    dt = o.dtype

    def elem(j, lo=lo, n=n, old=old):
        return ite_val(z3.And(j >= lo, j < lo + n), coerce_elem(src_elem(j - lo), dt, o.kind), old(j))
    st.heap[ref.id] = SeqVal(o.kind, o.dtype, o.length, elem, is_nd=o.is_nd, is_f64=o.is_f64, nanmask=o.nanmask)


def store_all(I, st, ref, v, node):
    """in-place `arr += ...` : overwrite the whole buffer with the computed value"""
    tgt = rseq(I, st, ref)
    if isinstance(v, Ref):
        src = rseq(I, st, v)
        store_range(I, st, ref, z3.IntVal(0), tgt.length, src.elem)
    else:
        store_range(I, st, ref, z3.IntVal(0), tgt.length, lambda j: v)
    return [(st, NONE)]


def slice_bounds(sl, length, st=None):
    """Python slice normalisation for step > 0 (or None): returns lo, hi (clamped), step"""
    def norm(b, default):
        if b is None or isinstance(b, NoneV):
            return default
        t = to_int(b)
        c = conc_int(t)
        if c is not None:
            if c >= 0:
                return z3.simplify(z3.If(t > length, length, t))
            return z3.simplify(z3.If(t + length < 0, z3.IntVal(0), t + length))
        return z3.If(t < 0, z3.If(t + length < 0, z3.IntVal(0), t + length), z3.If(t > length, length, t))
    step = z3.IntVal(1) if sl.step is None or isinstance(sl.step, NoneV) else to_int(sl.step)
    lo = resolve(st, norm(sl.lo, z3.IntVal(0)))
    hi = resolve(st, norm(sl.hi, length))
    return lo, hi, step


def slice_len(lo, hi, step, st=None):
    cs = conc_int(step)
    if cs == 1:
        return resolve(st, z3.If(hi > lo, hi - lo, z3.IntVal(0)))
    # ceil((hi-lo)/step) for step > 0
    return resolve(st, z3.If(hi > lo, (hi - lo + step - 1) / step, z3.IntVal(0)))


def getitem(I, st, obj, idx, node):
    if isinstance(obj, TupV):
        if isinstance(idx, Num):
            c = conc_int(to_int(idx))
            if c is None:
                rs = rseq(I, st, obj)
                return load_elem(I, st, rs, idx, node)
            if -len(obj.items) <= c < len(obj.items):
                return [(st, obj.items[c])]
            return [(st, Exc("IndexError", "tuple index out of range", I.where(node)))]
        if isinstance(idx, SliceV):
            lo, hi, step = slice_bounds(idx, z3.IntVal(len(obj.items)))
            lo, hi, step = conc_int(lo), conc_int(hi), conc_int(step)
            if None in (lo, hi, step):
                raise EngineError("symbolic tuple slice")
            return [(st, TupV(obj.items[lo:hi:step]))]
    if isinstance(obj, DictV):
        if isinstance(idx, StrV) and idx.concrete:
            if idx.s in obj.d:
                return [(st, obj.d[idx.s])]
            return [(st, Exc("KeyError", idx.s, I.where(node)))]
    if isinstance(obj, Ref):
        o = st.heap.get(obj.id)
        if isinstance(o, ObjVal):
            m = I.modules.find_method(o.cls, "__getitem__")
            if m is None:
                if o.cls.startswith("ext:"):
                    return ext_getitem(I, st, obj, o, idx, node)
                raise EngineError(f"{o.cls} is not subscriptable")
            fdef, modname, q = m
            fv = FunV("def", node=fdef, modname=modname, name=q + ".__getitem__", clsqual=q)
            return I.call_def(st, fv, [obj, idx], {}, node)
        if isinstance(o, Seq2Val):
            return getitem2(I, st, obj, o, idx, node)
        if isinstance(o, MaskedVal):
            raise EngineError("indexing a mask-selected array")
        if isinstance(o, (SeqVal, ViewVal)):
            rs = rseq(I, st, obj)
            if isinstance(idx, Num):
                if idx.kind == "real":
                    return [(st, Exc("IndexError", "float index", I.where(node)))]
                return load_elem(I, st, rs, idx, node)
            if isinstance(idx, SliceV):
                lo, hi, step = slice_bounds(idx, rs.length, st)
                excs, ok = I.may_raise(st, step <= 0, "ValueError", "slice step must be positive (model limit)", I.where(node))
                if ok is None:
                    return excs
                n = slice_len(lo, hi, step, st)
                if rs.kind == "ndarray":
                    # view into the root buffer
                    if isinstance(o, ViewVal):
                        base, inner = o.base, o.idxmap
                        v = ViewVal(base, n, lambda i, lo=lo, step=step, inner=inner: inner(lo + i * step), o.dtype)
                    else:
                        v = ViewVal(obj.id, n, lambda i, lo=lo, step=step: z3.simplify(lo + i * step) if conc_int(i) is not None and conc_int(lo) is not None and conc_int(step) is not None else lo + i * step, o.dtype)
                    return excs + [(ok, ok.alloc(v))]
                items = None
                if rs.kind in ("list",) and o.items is not None and None not in (conc_int(lo), conc_int(hi), conc_int(step)):
                    items = o.items[conc_int(lo):conc_int(hi):conc_int(step)]
                    return excs + [(ok, new_list(I, ok, items))]
                el = rs.elem
                return excs + [(ok, new_seq(ok, rs.kind, rs.dtype, n, lambda i, lo=lo, step=step, el=el: el(lo + i * step)))]
            if isinstance(idx, Ref):
                io = st.heap.get(idx.id)
                if isinstance(io, MaskedVal):
                    # y[indices[mask]] : gather through a mask-selected index array
                    el = rs.elem
                    src = io.src
                    L = rs.length
                    k = z3.Int(fresh_name("k"))
                    sk = norm_index(to_int(src(k)), L)
                    oob = z3.Exists([k], z3.And(k >= 0, k < io.full_len, io.mask(k), z3.Not(z3.And(sk >= 0, sk < L))))
                    excs, ok = I.may_raise(st, oob, "IndexError", "fancy index out of bounds", I.where(node))
                    res = list(excs)
                    if ok is not None:
                        res.append((ok, ok.alloc(MaskedVal(lambda i, el=el, src=src, L=L: el(norm_index(to_int(src(i)), L)), io.mask, io.full_len, rs.dtype))))
                    return res
                irs = rseq(I, st, idx)
                if irs.dtype == "bool":
                    excs, ok = I.may_raise(st, irs.length != rs.length, "IndexError", "boolean index did not match", I.where(node))
                    res = list(excs)
                    if ok is not None:
                        res.append((ok, ok.alloc(MaskedVal(rs.elem, lambda i, e=irs.elem: e(i).t, rs.length, rs.dtype))))
                    return res
                if irs.dtype == "int":
                    return gather(I, st, rs, irs, node)
                raise EngineError(f"index array of dtype {irs.dtype}")
            if isinstance(idx, TupV):
                if len(idx.items) == 1:
                    return getitem(I, st, obj, idx.items[0], node)
                return [(st, Exc("IndexError", "too many indices for array", I.where(node)))]
            if isinstance(idx, OptV) or isinstance(idx, NoneV):
                raise EngineError("None index")
    if isinstance(obj, AnyV):
        return [(st, AnyV("item"))]
    raise EngineError(f"getitem {obj} [{idx}] at {I.where(node)}")


def gather(I, st, rs, irs, node):
    k = z3.Int(fresh_name("k"))
    L = rs.length
    sk = norm_index(to_int(irs.elem(k)), L)
    cl = irs.conc_len()
    if cl is not None and cl <= 8:
        oob = z3.Or([z3.Not(z3.And(norm_index(to_int(irs.elem(z3.IntVal(j))), L) >= 0, norm_index(to_int(irs.elem(z3.IntVal(j))), L) < L))
                     for j in range(cl)]) if cl else z3.BoolVal(False)
    else:
        oob = z3.Exists([k], z3.And(k >= 0, k < irs.length, z3.Not(z3.And(sk >= 0, sk < L))))
    excs, ok = I.may_raise(st, oob, "IndexError", "fancy index out of bounds", I.where(node))
    res = list(excs)
    if ok is not None:
        el, ie = rs.elem, irs.elem
        ref = new_seq(ok, "ndarray", rs.dtype, irs.length, lambda i, el=el, ie=ie, L=L: el(norm_index(to_int(ie(i)), L)))
        ok.heap[ref.id].prov = ("take", rs, irs)
        res.append((ok, ref))
    return res


class MaskedVal:
    """result of a[mask] kept lazily: full-length source + mask (only the patterns used by the repository)"""

    def __init__(self, src, mask, full_len, dtype):
        self.src = src
        self.mask = mask
        self.full_len = full_len
        self.dtype = dtype
        self.kind = "ndarray"


def getitem2(I, st, ref, o, idx, node):
    """2-D ndarray indexing"""
    if isinstance(idx, TupV) and len(idx.items) == 2:
        a, b = idx.items
        if isinstance(a, SliceV) and isinstance(b, Num):
            lo, hi, step = slice_bounds(a, o.rows, st)
            if conc_int(step) != 1:
                raise EngineError("2-D strided rows")
            c = norm_index(to_int(b), o.cols)
            excs, ok = I.may_raise(st, z3.Not(z3.And(c >= 0, c < o.cols)), "IndexError", "column index", I.where(node))
            res = list(excs)
            if ok is not None:
                res.append((ok, ok.alloc(ViewVal(ref.id, slice_len(lo, hi, step, st), lambda i, lo=lo, c=c: (lo + i, c), o.dtype))))
            return res
        if isinstance(a, SliceV) and isinstance(b, SliceV):
            rlo, rhi, rs_ = slice_bounds(a, o.rows, st)
            clo, chi, cs_ = slice_bounds(b, o.cols, st)
            if conc_int(rs_) != 1 or conc_int(cs_) != 1:
                raise EngineError("2-D strided slice")
            e2 = o.elem2
            nm = o.nanmask2
            return [(st, st.alloc(Seq2Val(o.dtype, slice_len(rlo, rhi, rs_, st), slice_len(clo, chi, cs_, st),
                                         lambda r, c, e2=e2, rlo=rlo, clo=clo: e2(rlo + r, clo + c),
                                         (lambda r, c, nm=nm, rlo=rlo, clo=clo: nm(rlo + r, clo + c)) if nm else None)))]
        if isinstance(a, Num) and isinstance(b, Num):
            r = norm_index(to_int(a), o.rows)
            c = norm_index(to_int(b), o.cols)
            excs, ok = I.may_raise(st, z3.Not(z3.And(r >= 0, r < o.rows, c >= 0, c < o.cols)), "IndexError", "2-D index", I.where(node))
            res = list(excs)
            if ok is not None:
                res.append((ok, o.elem2(r, c)))
            return res
    if isinstance(idx, SliceV):
        lo, hi, step = slice_bounds(idx, o.rows, st)
        if conc_int(step) != 1:
            raise EngineError("2-D strided rows")
        e2 = o.elem2
        nm = o.nanmask2
        return [(st, st.alloc(Seq2Val(o.dtype, slice_len(lo, hi, step, st), o.cols, lambda r, c, e2=e2, lo=lo: e2(lo + r, c),
                                     (lambda r, c, nm=nm, lo=lo: nm(lo + r, c)) if nm else None)))]
    if isinstance(idx, Num):
        r = norm_index(to_int(idx), o.rows)
        excs, ok = I.may_raise(st, z3.Not(z3.And(r >= 0, r < o.rows)), "IndexError", "row index", I.where(node))
        res = list(excs)
        if ok is not None:
            res.append((ok, ok.alloc(ViewVal(ref.id, o.cols, lambda i, r=r: (r, i), o.dtype))))
        return res
    raise EngineError(f"2-D index {idx}")


def setitem(I, st, obj, idx, v, node):
    if isinstance(obj, Ref):
        o = st.heap.get(obj.id)
        if isinstance(o, ObjVal):
            m = I.modules.find_method(o.cls, "__setitem__")
            if m is None:
                raise EngineError(f"{o.cls} does not support item assignment")
            fdef, modname, q = m
            fv = FunV("def", node=fdef, modname=modname, name=q + ".__setitem__", clsqual=q)
            return I.call_def(st, fv, [obj, idx, v], {}, node)
        if isinstance(o, (SeqVal, ViewVal)):
            if isinstance(idx, Num):
                if isinstance(v, Ref):
                    raise EngineError("storing a sequence into an element")
                return store_elem(I, st, obj, idx, v, node)
            if isinstance(idx, SliceV):
                rs = rseq(I, st, obj)
                lo, hi, step = slice_bounds(idx, rs.length, st)
                if conc_int(step) != 1:
                    raise EngineError("strided slice store")
                n = slice_len(lo, hi, step, st)
                if isinstance(v, Ref) or isinstance(v, TupV):
                    src = rseq(I, st, v)
                    if rs.kind != "ndarray":
                        raise EngineError("list slice assignment")
                    excs, ok = I.may_raise(st, z3.And(src.length != n, src.length != 1), "ValueError", "could not broadcast", I.where(node))
                    res = list(excs)
                    if ok is not None:
                        store_range(I, ok, obj, lo, n, src.elem)
                        res.append((ok, NONE))
                    return res
                store_range(I, st, obj, lo, n, lambda j, v=v: v)
                return [(st, NONE)]
            if isinstance(idx, Ref):
                io = st.heap.get(idx.id)
                irs = rseq(I, st, idx)
                rs = rseq(I, st, obj)
                if irs.dtype == "bool":
                    excs, ok = I.may_raise(st, irs.length != rs.length, "IndexError", "boolean index did not match", I.where(node))
                    res = list(excs)
                    if ok is None:
                        return res
                    me = irs.elem
                    if isinstance(v, Ref) and isinstance(ok.heap.get(v.id), MaskedVal):
                        mv = ok.heap[v.id]
                        j = z3.Int(fresh_name("j"))
                        same = z3.ForAll([j], z3.Implies(z3.And(j >= 0, j < rs.length), mv.mask(j) == me(j).t))
                        ex2, ok2 = I.may_raise(ok, z3.Not(z3.And(mv.full_len == rs.length, same)), "ValueError",
                                               "mask-store shape mismatch (model: masks must coincide)", I.where(node))
                        res.extend(ex2)
                        if ok2 is not None:
                            src = mv.src
                            store_range(I, ok2, obj, z3.IntVal(0), rs.length, None) if False else None
                            _store_masked(ok2, obj, me, src)
                            res.append((ok2, NONE))
                        return res
                    if isinstance(v, Num):
                        _store_masked(ok, obj, me, lambda i, v=v: v)
                        res.append((ok, NONE))
                        return res
                    raise EngineError("mask store of an unmasked array")
            raise EngineError(f"setitem index {idx}")
    raise EngineError(f"setitem on {obj}")


def _store_masked(st, ref, maskelem, src):
    o = st.heap[ref.id]
    if not isinstance(o, SeqVal):
        raise EngineError("mask store through a view")
    old = o.elem
    st.heap[ref.id] = SeqVal(o.kind, o.dtype, o.length,
                             lambda i, old=old: ite_val(maskelem(i).t, coerce_elem(src(i), o.dtype, o.kind), old(i)),
                             is_nd=o.is_nd, is_f64=o.is_f64)


def unpack(I, st, v, n):
    if isinstance(v, TupV):
        items = v.items
    elif isinstance(v, Ref) and isinstance(st.heap.get(v.id), (SeqVal, ViewVal)):
        rs = rseq(I, st, v)
        cl = rs.conc_len()
        if cl is None:
            if n is None:
                raise EngineError("unpacking a sequence of symbolic length")
            st.assume(rs.length == n)    # guarded by the obligation below in callers? keep explicit:
            raise EngineError("unpacking a sequence of symbolic length")
        items = [rs.elem(z3.IntVal(k)) for k in range(cl)]
    elif isinstance(v, Ref) and isinstance(st.heap.get(v.id), Seq2Val):
        o = st.heap[v.id]
        cl = conc_int(o.rows)
        if cl is None:
            raise EngineError("unpacking 2-D of symbolic rows")
        items = [st.alloc(ViewVal(v.id, o.cols, lambda i, r=r: (z3.IntVal(r), i), o.dtype)) for r in range(cl)]
    else:
        return Exc("TypeError", f"cannot unpack {v}")
    if n is not None and len(items) != n:
        return Exc("ValueError", "wrong number of values to unpack")
    return items


# --------------------------------------------------------------------------- truthiness / operators

def truthy(I, st, v):
    if isinstance(v, Num):
        if v.kind == "bool":
            return v.t
        return v.t != 0
    if isinstance(v, NoneV):
        return z3.BoolVal(False)
    if isinstance(v, OptV):
        return z3.And(z3.Not(v.isnone), truthy(I, st, v.val))
    if isinstance(v, StrV):
        if v.concrete:
            return z3.BoolVal(bool(v.s))
        return z3.Length(v.s) > 0
    if isinstance(v, TupV):
        return z3.BoolVal(bool(v.items))
    if isinstance(v, DictV):
        if v.opaque:
            raise EngineError("truthiness of opaque kwargs")
        return z3.BoolVal(bool(v.d))
    if isinstance(v, (FunV, ModV)):
        return z3.BoolVal(True)
    if isinstance(v, Ref):
        o = st.heap.get(v.id)
        if isinstance(o, SeqVal) and o.kind == "list":
            return o.length > 0
        if isinstance(o, ObjVal):
            return z3.BoolVal(True)
        if isinstance(o, (SeqVal, ViewVal)):
            rs = rseq(I, st, v)
            if rs.conc_len() == 1:
                return truthy(I, st, rs.elem(z3.IntVal(0)))
            raise EngineError("truth value of an array")
    if isinstance(v, AnyV):
        raise EngineError(f"truthiness of opaque value {v}")
    raise EngineError(f"truthy {v}")


def is_arr(st, v):
    return isinstance(v, Ref) and isinstance(st.heap.get(v.id), (SeqVal, ViewVal)) and st.heap[v.id].kind == "ndarray"


def is_list(st, v):
    return isinstance(v, Ref) and isinstance(st.heap.get(v.id), SeqVal) and st.heap[v.id].kind == "list"


def num_binop(I, st, op, a, b, node):
    """scalar arithmetic: returns [(st, Num|Exc)]"""
    if isinstance(a, OptV) or isinstance(b, OptV):
        res = []
        cond = z3.Or(a.isnone if isinstance(a, OptV) else z3.BoolVal(False), b.isnone if isinstance(b, OptV) else z3.BoolVal(False))
        excs, ok = I.may_raise(st, cond, "TypeError", "unsupported operand None", I.where(node))
        res.extend(excs)
        if ok is not None:
            res.extend(num_binop(I, ok, op, a.val if isinstance(a, OptV) else a, b.val if isinstance(b, OptV) else b, node))
        return res
    if isinstance(a, NoneV) or isinstance(b, NoneV):
        return [(st, Exc("TypeError", "unsupported operand None", I.where(node)))]
    if not (isinstance(a, Num) and isinstance(b, Num)):
        raise EngineError(f"binop {op} on {a}, {b} at {I.where(node)}")
    bothint = a.kind in ("int", "bool") and b.kind in ("int", "bool")
    if op in ("Add", "Sub", "Mult"):
        if bothint:
            x, y = to_int(a), to_int(b)
            k = "int"
        else:
            x, y = to_real(a), to_real(b)
            k = "real"
        t = {"Add": x + y, "Sub": x - y, "Mult": x * y}[op]
        return [(st, Num(z3.simplify(t) if conc_int(x) is not None and conc_int(y) is not None else t, k))]
    if op == "Div":
        x, y = to_real(a), to_real(b)
        excs, ok = I.may_raise(st, y == 0, "ZeroDivisionError", "division by zero", I.where(node))
        res = list(excs)
        if ok is not None:
            res.append((ok, Num(x / y, "real")))
        return res
    if op in ("FloorDiv", "Mod"):
        if not bothint:
            raise EngineError("// or % on floats")
        x, y = to_int(a), to_int(b)
        excs, ok = I.may_raise(st, y == 0, "ZeroDivisionError", "integer division by zero", I.where(node))
        res = list(excs)
        if ok is not None:
            cy = conc_int(y)
            if cy is not None and cy > 0:
                q = x / y
            else:
                q = z3.If(y > 0, x / y, (-x) / (-y))
            if cy is None:
                # defining property of floor division by a positive symbolic divisor (z3 does not derive it for nonlinear terms)
                ok.assume(z3.Implies(y > 0, z3.And(y * q <= x, x < y * q + y)))
            res.append((ok, Num(q if op == "FloorDiv" else x - y * q, "int")))
        return res
    if op == "Pow":
        return [(st, Num(power(I, st, a, b, node), "real" if not (bothint and conc_int(to_int(b)) is not None and conc_int(to_int(b)) >= 0) else "int"))]
    raise EngineError(f"operator {op}")


def power(I, st, a, b, node):
    """x ** y on scalars (no fork: domain problems are recorded as obligations by the caller via pow_domain)"""
    if b.kind in ("int", "bool"):
        c = conc_int(to_int(b))
        if c is not None and 0 <= c <= 4:
            base = to_int(a) if a.kind in ("int", "bool") else to_real(a)
            t = z3.IntVal(1) if a.kind in ("int", "bool") else z3.RealVal(1)
            for _ in range(c):
                t = t * base
            return t
    return POW(z3.simplify(to_real(a)), z3.simplify(to_real(b)))     # canonical argument form: equal bases give the same atom


def pow_needs_domain(a, b):
    if b.kind in ("int", "bool"):
        c = conc_int(to_int(b))
        if c is not None and 0 <= c <= 4:
            return False
    return True


def binop(I, st, op, a, b, node):
    # Python list operations
    if is_list(st, a) and op == "Mult" and isinstance(b, Num):
        rs = rseq(I, st, a)
        n = to_int(b)
        cl = rs.conc_len()
        if cl == 1:
            e0 = rs.elem(z3.IntVal(0))
            cn = conc_int(n)
            if cn is not None and cn <= 64:
                return [(st, new_list(I, st, [e0] * max(cn, 0)))]
            return [(st, new_seq(st, "list", rs.dtype, z3.If(n > 0, n, z3.IntVal(0)), lambda i, e0=e0: e0))]
        raise EngineError("list * int for len != 1")
    if is_list(st, a) and is_list(st, b) and op == "Add":
        ra, rb = rseq(I, st, a), rseq(I, st, b)
        ea, eb, la = ra.elem, rb.elem, ra.length
        return [(st, new_seq(st, "list", ra.dtype if ra.dtype == rb.dtype else "obj", ra.length + rb.length,
                             lambda i: ite_val(i < la, ea(i), eb(i - la))))]
    if isinstance(a, StrV) and isinstance(b, StrV) and op == "Add":
        if a.concrete and b.concrete:
            return [(st, StrV(a.s + b.s))]
        return [(st, StrV(z3.Concat(a.term(), b.term())))]
    a_seq = isinstance(a, Ref) and isinstance(st.heap.get(a.id), (SeqVal, ViewVal))
    b_seq = isinstance(b, Ref) and isinstance(st.heap.get(b.id), (SeqVal, ViewVal))
    a2 = isinstance(a, Ref) and isinstance(st.heap.get(a.id), Seq2Val)
    b2 = isinstance(b, Ref) and isinstance(st.heap.get(b.id), Seq2Val)
    if a2 or b2:
        raise EngineError("2-D arithmetic")
    if a_seq or b_seq:
        if (a_seq and rseq(I, st, a).kind == "list" and not b_seq) or (b_seq and rseq(I, st, b).kind == "list" and not a_seq):
            raise EngineError("list arithmetic with scalar")
        return elementwise(I, st, op, a, b, node)
    if op == "Pow" and isinstance(a, Num) and isinstance(b, Num) and pow_needs_domain(a, b):
        excs, ok = I.may_raise(st, to_real(a) < 0, "PowDomain", "negative base with non-integer exponent", I.where(node))
        res = list(excs)
        if ok is not None:
            res.extend(num_binop(I, ok, op, a, b, node))
        return res
    return num_binop(I, st, op, a, b, node)


def elementwise(I, st, op, a, b, node):
    ra = rseq(I, st, a) if isinstance(a, Ref) else None
    rb = rseq(I, st, b) if isinstance(b, Ref) else None
    if ra is not None and rb is not None:
        la, lb = ra.conc_len(), rb.conc_len()
        if lb == 1 and la != 1:
            rb_e = rb.elem(z3.IntVal(0))
            rb = None
            b = rb_e
        elif la == 1 and lb != 1:
            a = ra.elem(z3.IntVal(0))
            ra = None
    n = (ra or rb).length
    res = []
    ok = st
    if ra is not None and rb is not None:
        excs, ok = I.may_raise(st, ra.length != rb.length, "ValueError", "operands could not be broadcast together", I.where(node))
        res.extend(excs)
        if ok is None:
            return res
    # element-wise raising conditions (division by zero / pow domain): quantified over the index
    k = z3.Int(fresh_name("k"))
    ea = ra.elem(k) if ra is not None else a
    eb = rb.elem(k) if rb is not None else b
    if op == "Div":
        cond = z3.Exists([k], z3.And(k >= 0, k < n, to_real(eb) == 0)) if rb is not None else (to_real(eb) == 0)
        excs, ok = I.may_raise(ok, cond, "ZeroDivisionError", "array division by zero (inf/nan)", I.where(node))
        res.extend(excs)
        if ok is None:
            return res
    if op == "Pow" and pow_needs_domain(ea, eb):
        cond = z3.Exists([k], z3.And(k >= 0, k < n, to_real(ea) < 0)) if ra is not None else (to_real(ea) < 0)
        excs, ok = I.may_raise(ok, cond, "PowDomain", "negative base with non-integer exponent", I.where(node))
        res.extend(excs)
        if ok is None:
            return res
    dry = I.dry

    def elem(i, ra=ra, rb=rb, a=a, b=b):
        x = ra.elem(i) if ra is not None else a
        y = rb.elem(i) if rb is not None else b
        return scalar_op_total(op, x, y)
    probe = elem(k)
    dt = "int" if probe.kind == "int" else ("bool" if probe.kind == "bool" else "real")
    res.append((ok, new_seq(ok, "ndarray", dt, n, elem)))
    return res


def scalar_op_total(op, x, y):
    """total scalar operation used inside element closures (side conditions were discharged once, quantified)"""
    bothint = x.kind in ("int", "bool") and y.kind in ("int", "bool")
    if op in ("Add", "Sub", "Mult"):
        if bothint:
            p, q, k = to_int(x), to_int(y), "int"
        else:
            p, q, k = to_real(x), to_real(y), "real"
        return Num({"Add": p + q, "Sub": p - q, "Mult": p * q}[op], k)
    if op == "Div":
        return Num(to_real(x) / to_real(y), "real")
    if op == "Pow":
        t = power(None, None, x, y, None)
        return Num(t, "int" if t.sort() == z3.IntSort() else "real")
    if op in ("Lt", "LtE", "Gt", "GtE", "Eq", "NotEq"):
        p, q = (to_int(x), to_int(y)) if bothint else (to_real(x), to_real(y))
        return Num({"Lt": p < q, "LtE": p <= q, "Gt": p > q, "GtE": p >= q, "Eq": p == q, "NotEq": p != q}[op], "bool")
    raise EngineError(f"elementwise {op}")


def unop(I, st, op, v, node):
    if op == "Not":
        return [(st, Num(z3.Not(truthy(I, st, v)), "bool"))]
    if op == "USub":
        if isinstance(v, Num):
            if v.kind == "real":
                return [(st, Num(-v.t, "real"))]
            t = -to_int(v)
            return [(st, Num(z3.simplify(t) if conc_int(to_int(v)) is not None else t, "int"))]
        if isinstance(v, Ref):
            rs = rseq(I, st, v)
            e = rs.elem
            return [(st, new_seq(st, "ndarray", rs.dtype, rs.length, lambda i: Num(-e(i).t, e(i).kind)))]
    if op == "UAdd" and isinstance(v, Num):
        return [(st, v)]
    raise EngineError(f"unary {op} on {v}")


def compare(I, st, op, a, b, node):
    if op in ("Is", "IsNot"):
        neg = op == "IsNot"
        if isinstance(b, NoneV):
            if isinstance(a, NoneV):
                r = z3.BoolVal(True)
            elif isinstance(a, OptV):
                r = a.isnone
            else:
                r = z3.BoolVal(False)
        elif isinstance(a, NoneV):
            r = b.isnone if isinstance(b, OptV) else z3.BoolVal(False)
        elif isinstance(b, Num) and b.kind == "bool" and isinstance(a, Num):
            # `x is True`
            r = a.t == b.t if a.kind == "bool" else z3.BoolVal(False)
        elif isinstance(a, Ref) and isinstance(b, Ref):
            r = z3.BoolVal(a.id == b.id)
        else:
            raise EngineError(f"`is` on {a}, {b}")
        return [(st, Num(z3.Not(r) if neg else r, "bool"))]
    if op in ("In", "NotIn"):
        items = None
        if isinstance(b, TupV):
            items = b.items
        elif isinstance(b, Ref) and isinstance(st.heap.get(b.id), SeqVal) and st.heap[b.id].items is not None:
            items = st.heap[b.id].items
        if items is None:
            raise EngineError("`in` on a symbolic container")
        r = z3.Or([eq_val(I, st, a, x) for x in items]) if items else z3.BoolVal(False)
        return [(st, Num(z3.Not(r) if op == "NotIn" else r, "bool"))]
    if op in ("Eq", "NotEq"):
        a_seq = isinstance(a, Ref) and isinstance(st.heap.get(a.id), (SeqVal, ViewVal)) and st.heap[a.id].kind == "ndarray"
        b_seq = isinstance(b, Ref) and isinstance(st.heap.get(b.id), (SeqVal, ViewVal)) and st.heap[b.id].kind == "ndarray"
        if a_seq or b_seq:
            return elementwise(I, st, op, a, b, node)
        r = eq_val(I, st, a, b)
        return [(st, Num(z3.Not(r) if op == "NotEq" else r, "bool"))]
    # ordering
    a_seq = isinstance(a, Ref) and isinstance(st.heap.get(a.id), (SeqVal, ViewVal))
    b_seq = isinstance(b, Ref) and isinstance(st.heap.get(b.id), (SeqVal, ViewVal))
    if a_seq or b_seq:
        return elementwise(I, st, op, a, b, node)
    res = []
    ok = st
    if isinstance(a, (OptV, NoneV)) or isinstance(b, (OptV, NoneV)):
        cond = z3.Or(a.isnone if isinstance(a, OptV) else z3.BoolVal(isinstance(a, NoneV)),
                     b.isnone if isinstance(b, OptV) else z3.BoolVal(isinstance(b, NoneV)))
        excs, ok = I.may_raise(st, cond, "TypeError", "ordering comparison with None", I.where(node))
        res.extend(excs)
        if ok is None:
            return res
        a = a.val if isinstance(a, OptV) else a
        b = b.val if isinstance(b, OptV) else b
    if isinstance(a, Num) and isinstance(b, Num):
        res.append((ok, scalar_op_total(op, a, b)))
        return res
    raise EngineError(f"compare {op} {a} {b} at {I.where(node)}")


def eq_val(I, st, a, b):
    if isinstance(a, Num) and isinstance(b, Num):
        if a.kind == "bool" and b.kind == "bool":
            return a.t == b.t
        if a.kind in ("int", "bool") and b.kind in ("int", "bool"):
            return to_int(a) == to_int(b)
        return to_real(a) == to_real(b)
    if isinstance(a, StrV) and isinstance(b, StrV):
        if a.concrete and b.concrete:
            return z3.BoolVal(a.s == b.s)
        return a.term() == b.term()
    if isinstance(a, NoneV) and isinstance(b, NoneV):
        return z3.BoolVal(True)
    if isinstance(a, OptV) or isinstance(b, OptV):
        oa, ob = (as_opt(a) if isinstance(a, (Num, NoneV, OptV)) else None), (as_opt(b) if isinstance(b, (Num, NoneV, OptV)) else None)
        if oa is None or ob is None:
            return z3.BoolVal(False)
        return z3.Or(z3.And(oa.isnone, ob.isnone), z3.And(z3.Not(oa.isnone), z3.Not(ob.isnone), eq_val(I, st, oa.val, ob.val)))
    if isinstance(a, NoneV) or isinstance(b, NoneV):
        return z3.BoolVal(False)
    if isinstance(a, (StrV, Num)) and isinstance(b, (StrV, Num)):
        return z3.BoolVal(False)
    if isinstance(a, TupV) and isinstance(b, TupV):
        if len(a.items) != len(b.items):
            return z3.BoolVal(False)
        return z3.And([eq_val(I, st, x, y) for x, y in zip(a.items, b.items)]) if a.items else z3.BoolVal(True)
    raise EngineError(f"== on {a}, {b}")


# --------------------------------------------------------------------------- shapes (loop havoc)

def shape_of(I, st, v):
    if isinstance(v, Num):
        return ("num", "int" if v.kind == "int" else ("bool" if v.kind == "bool" else "real"))
    if isinstance(v, NoneV):
        return ("none",)
    if isinstance(v, OptV):
        return ("opt", v.val.kind)
    if isinstance(v, Ref):
        return ("ref", v.id)
    if isinstance(v, StrV):
        return ("str",)
    if isinstance(v, TupV):
        return ("tup", tuple(shape_of(I, st, x) for x in v.items))
    if isinstance(v, (FunV, ModV, DictV, AnyV)) or isinstance(v, tuple):
        return ("same", id(v))
    raise EngineError(f"shape of {v}")


def _joink(a, b):
    if a == b:
        return a
    if "real" in (a, b):
        return "real"
    return "int"


def join_shape(a, b):
    if a == b:
        return a
    ta, tb = a[0], b[0]
    if ta == "num" and tb == "num":
        return ("num", _joink(a[1], b[1]))
    if {ta, tb} <= {"num", "none", "opt"}:
        ks = [s[1] for s in (a, b) if s[0] in ("num", "opt")]
        k = ks[0] if len(ks) == 1 else _joink(ks[0], ks[1])
        return ("opt", k)
    if ta == "tup" and tb == "tup" and len(a[1]) == len(b[1]):
        return ("tup", tuple(join_shape(x, y) for x, y in zip(a[1], b[1])))
    if ta == "seq" and tb == "seq":
        return ("seq", a[1], a[2] if a[2] == b[2] else ("real" if {a[2], b[2]} <= {"int", "real"} else "obj"), a[3] and b[3])
    if ta == "iter" and tb == "iter":
        return a
    if ta == "obj" and tb == "obj" and a[1] == b[1]:
        fa, fb = dict(a[2]), dict(b[2])
        if fa.keys() != fb.keys():
            raise EngineError("object gains/loses fields inside a loop")
        return ("obj", a[1], tuple(sorted((k, fa[k] if fa[k] == fb[k] else join_shape(fa[k], fb[k])) for k in fa)))
    raise EngineError(f"cannot join shapes {a} and {b} (variable changes type inside a loop)")


def fresh_of_shape(I, st, sh, name):
    t = sh[0]
    if t == "num":
        if sh[1] == "int":
            return Num(z3.Int(fresh_name(name)), "int")
        if sh[1] == "bool":
            return Num(z3.Bool(fresh_name(name)), "bool")
        return Num(z3.Real(fresh_name(name)), "real")
    if t == "none":
        return NONE
    if t == "opt":
        v = z3.Int(fresh_name(name)) if sh[1] == "int" else z3.Real(fresh_name(name))
        return OptV(z3.Bool(fresh_name(name + "_isnone")), Num(v, sh[1] if sh[1] == "int" else "real"))
    if t == "ref":
        return Ref(sh[1])
    if t == "tup":
        return TupV([fresh_of_shape(I, st, s, name) for s in sh[1]])
    if t == "str":
        return StrV(z3.String(fresh_name(name)))
    raise EngineError(f"fresh of shape {sh}")


def heap_shape(I, st, obj):
    if isinstance(obj, SeqVal):
        return ("seq", obj.kind, obj.dtype, True)
    if isinstance(obj, IterVal):
        return ("iter",)
    if isinstance(obj, ObjVal):
        return ("obj", obj.cls, tuple(sorted((k, shape_of(I, st, v)) for k, v in obj.fields.items())))
    if isinstance(obj, ViewVal):
        return ("view",)
    raise EngineError(f"heap shape of {type(obj).__name__}")


def fresh_heap_of_shape(I, st, sh, old, hid):
    t = sh[0]
    if t == "seq":
        if sh[1] == "ndarray":
            A = fresh_array(sh[2], "hv")
            sv = SeqVal("ndarray", sh[2], old.length, arr_elem(A, sh[2]), is_nd=old.is_nd, is_f64=old.is_f64)
            sv.arr = A
            return sv
        L = z3.Int(fresh_name("len"))
        st.assume(L >= 0)
        if sh[2] == "obj":
            return SeqVal("list", "obj", L, lambda i: AnyV("elem"))
        A = fresh_array(sh[2], "hv")
        sv = SeqVal("list", sh[2], L, arr_elem(A, sh[2]))
        sv.arr = A
        return sv
    if t == "iter":
        p = z3.Int(fresh_name("pos"))
        rs = rseq(I, st, old.seq)
        st.assume(z3.And(p >= 0, p <= rs.length))
        return IterVal(old.seq, p)
    if t == "obj":
        flds = {}
        for k, fsh in sh[2]:
            if fsh[0] == "same":
                flds[k] = old.fields[k]
            elif fsh[0] == "str" and isinstance(old.fields.get(k), StrV) and old.fields[k].concrete:
                flds[k] = fresh_of_shape(I, st, fsh, k)
            else:
                flds[k] = fresh_of_shape(I, st, fsh, k)
        return ObjVal(old.cls, flds)
    raise EngineError(f"fresh heap of shape {sh}")


# --------------------------------------------------------------------------- iteration

def iter_protocol(I, st, it, node):
    """returns (n_items term, item(state, k) -> [(state, value|Exc)]) for `for ... in it`"""
    if isinstance(it, RangeV):
        lo, hi, step = it.lo, it.hi, it.step
        cs = conc_int(step)
        if cs == 1:
            n = z3.If(hi > lo, hi - lo, z3.IntVal(0))
        else:
            n = z3.If(hi > lo, (hi - lo + step - 1) / step, z3.IntVal(0))
        n = z3.simplify(n) if conc_int(lo) is not None and conc_int(hi) is not None else n
        return n, (lambda s, k: [(s, Num(z3.simplify(lo + k * step), "int"))])
    if isinstance(it, ZipV):
        rss = [rseq(I, st, x) for x in it.seqs]
        n = rss[0].length
        for r in rss[1:]:
            n = z3.If(r.length < n, r.length, n)
        n = z3.simplify(n)
        return n, (lambda s, k: [(s, TupV([r.elem(k) for r in rss]))])
    if isinstance(it, TupV) or (isinstance(it, Ref) and isinstance(st.heap.get(it.id), (SeqVal, ViewVal))):
        rs = rseq(I, st, it)
        return rs.length, (lambda s, k: [(s, rs.elem(k))])
    if isinstance(it, Ref) and isinstance(st.heap.get(it.id), ObjVal):
        o = st.heap[it.id]
        m = I.modules.find_method(o.cls, "__iter__")
        if m is not None and "a" in o.fields:
            return iter_protocol(I, st, o.fields["a"], node)
    raise EngineError(f"iteration over {it}")


class RangeV(V):
    def __init__(self, lo, hi, step):
        self.lo, self.hi, self.step = lo, hi, step


class ZipV(V):
    def __init__(self, seqs):
        self.seqs = seqs


def listcomp(I, st, node):
    if len(node.generators) != 1 or node.generators[0].ifs:
        raise EngineError("comprehension with several generators or conditions")
    gen = node.generators[0]
    res = []
    for s, it in I.eval(gen.iter, st):
        if isinstance(it, Exc):
            res.append((s, it))
            continue
        n_items, item = iter_protocol(I, s, it, node)
        cn = conc_int(n_items)
        if cn is not None and cn <= 40:
            # concrete length: evaluate item by item
            outs = [(s, [])]
            saved = {}
            for k in range(cn):
                nxt = []
                for s1, acc in outs:
                    for s2, v in item(s1, z3.IntVal(k)):
                        if isinstance(v, Exc):
                            res.append((s2, v))
                            continue
                        s2 = _comp_bind(I, s2, gen.target, v, saved)
                        for s3, e in I.eval(node.elt, s2):
                            if isinstance(e, Exc):
                                res.append((s3, e))
                            else:
                                nxt.append((s3, acc + [e]))
                outs = nxt
            for s1, acc in outs:
                _comp_unbind(s1, gen.target, saved)
                res.append((s1, new_list(I, s1, acc)))
            continue
        # symbolic length: evaluate the element expression once for a generic index k
        k = z3.Int(fresh_name("ck"))
        probe = I.fork(s)
        probe.assume(z3.And(k >= 0, k < n_items))
        n_arrterms = len(probe.ghost.get("__arrterm", {}))
        saved = {}
        normal = []
        for s2, v in item(probe, k):
            if isinstance(v, Exc):
                res.append((s2, v))
                continue
            s2 = _comp_bind(I, s2, gen.target, v, saved)
            for s3, e in I.eval(node.elt, s2):
                if isinstance(e, Exc):
                    res.append((s3, e))
                else:
                    normal.append((s3, e))
        if len(normal) != 1:
            raise EngineError(f"comprehension element forks into {len(normal)} paths (model limit)")
        s3, e = normal[0]
        if s3.heap.keys() - s.heap.keys():
            # allocations inside the element expression (temporary views) are fine as long as nothing older changed
            pass
        for hid in s.heap:
            if s3.heap.get(hid) is not s.heap[hid]:
                raise EngineError("comprehension element has side effects")
        extra = s3.pc[len(probe.pc):]
        dep = [e for e in extra if _mentions(e, k)]
        indep = [e for e in extra if not _mentions(e, k)]
        new_terms = {kk: vv for kk, vv in s3.ghost.get("__arrterm", {}).items() if kk not in s.ghost.get("__arrterm", {})}
        for kk, (A, ax) in new_terms.items():
            if _mentions(ax, k):
                raise EngineError("comprehension element introduces an index-dependent array definition (model limit)")
            s.ghost.setdefault("__arrterm", {})[kk] = (A, ax)
        for e in indep:
            s.assume(e)
        if dep:
            # facts learnt for the generic index (e.g. no-raise conditions): valid for every index in range
            s.assume(z3.ForAll([k], z3.Implies(z3.And(k >= 0, k < n_items), z3.And(*dep))))
        if not isinstance(e, Num):
            if isinstance(e, AnyV):
                res.append((s, new_seq(s, "list", "obj", n_items, lambda i: AnyV("elem"))))
                continue
            raise EngineError("comprehension of non-scalar elements with symbolic length")
        term = e.t
        kind = e.kind
        dt = "int" if kind == "int" else ("bool" if kind == "bool" else "real")
        for name, (v0, had) in saved.items():
            pass
        _comp_unbind(s, gen.target, saved)
        res.append((s, new_seq(s, "list", dt, n_items, lambda i, term=term, k=k, kind=kind: Num(z3.substitute(term, (k, i)), kind))))
    return res


def _mentions(f, c):
    cid = c.get_id()
    seen, stack = set(), [f]
    while stack:
        x = stack.pop()
        if x.get_id() in seen:
            continue
        seen.add(x.get_id())
        if x.get_id() == cid:
            return True
        if z3.is_quantifier(x):
            stack.append(x.body())
        elif z3.is_app(x):
            stack.extend(x.children())
    return False


def _comp_bind(I, st, target, v, saved):
    names = [n.id for n in ast.walk(target) if isinstance(n, ast.Name)]
    for n in names:
        if n not in saved:
            saved[n] = (st.env.get(n), n in st.env)
    outs = I.assign(target, v, st)
    if len(outs) != 1 or outs[0][1] is not None:
        raise EngineError("comprehension target binding")
    return outs[0][0]


def _comp_unbind(st, target, saved):
    for n, (v0, had) in saved.items():
        if had:
            st.env[n] = v0
        else:
            st.env.pop(n, None)


# --------------------------------------------------------------------------- attributes

def getattr_(I, st, v, attr, node):
    if isinstance(v, ModV):
        full = v.name + "." + attr
        if I.modules.is_repo_module(full):
            return [(st, ModV(full))]
        if I.modules.is_repo_module(v.name):
            mi = I.modules.load(v.name)
            if attr in mi.globals:
                g = I.global_value(mi.globals[attr], attr)
                return [(st, g)]
            return [(st, Exc("AttributeError", f"module {v.name} has no attribute {attr}", I.where(node)))]
        if not lib_exists(full):
            return [(st, Exc("AttributeError", f"module '{v.name}' has no attribute '{attr}'", I.where(node)))]
        if full in LIB_CONSTS:
            return [(st, LIB_CONSTS[full]())]
        return [(st, ModV(full))]
    if isinstance(v, Ref):
        o = st.heap.get(v.id)
        if isinstance(o, ObjVal):
            if attr in o.fields:
                return [(st, o.fields[attr])]
            if o.cls.startswith("ext:"):
                return [(st, FunV("libbound", selfv=v, name=o.cls[4:] + "." + attr))]
            m = I.modules.find_method(o.cls, attr)
            if m is not None:
                fdef, modname, q = m
                decos = [d.id for d in fdef.decorator_list if isinstance(d, ast.Name)]
                if "property" in decos:
                    fv = FunV("def", node=fdef, modname=modname, name=q + "." + attr, clsqual=q)
                    return I.call_def(st, fv, [v], {}, node)
                if "staticmethod" in decos:
                    return [(st, FunV("def", node=fdef, modname=modname, name=q + "." + attr, clsqual=q))]
                return [(st, FunV("bound", node=fdef, modname=modname, name=q + "." + attr, clsqual=q, selfv=v))]
            return [(st, Exc("AttributeError", f"'{o.cls}' object has no attribute '{attr}'", I.where(node)))]
        if isinstance(o, (SeqVal, ViewVal)):
            rs = rseq(I, st, v)
            if rs.kind == "ndarray":
                if attr == "size":
                    return [(st, Num(rs.length, "int"))]
                if attr == "shape":
                    return [(st, TupV([Num(rs.length, "int")]))]
                if attr == "ndim":
                    return [(st, IntN(1))]
                if attr == "T":
                    return [(st, v)]
                return [(st, FunV("libbound", selfv=v, name="ndarray." + attr))]
            if rs.kind == "list":
                return [(st, FunV("libbound", selfv=v, name="list." + attr))]
        if isinstance(o, Seq2Val):
            if attr == "T":
                e2 = o.elem2
                return [(st, st.alloc(Seq2Val(o.dtype, o.cols, o.rows, lambda r, c, e2=e2: e2(c, r))))]
            if attr == "shape":
                return [(st, TupV([Num(o.rows, "int"), Num(o.cols, "int")]))]
            if attr == "size":
                return [(st, Num(o.rows * o.cols, "int"))]
            if attr == "ndim":
                return [(st, IntN(2))]
            return [(st, FunV("libbound", selfv=v, name="ndarray2." + attr))]
    if isinstance(v, FunV) and v.kind == "super":
        m = I.modules.find_method(v.parent, attr)
        if m is None:
            return [(st, Exc("AttributeError", f"super object has no attribute {attr}", I.where(node)))]
        fdef, modname, q = m
        return [(st, FunV("bound", node=fdef, modname=modname, name=q + "." + attr, clsqual=q, selfv=v.selfv))]
    if isinstance(v, FunV) and v.kind == "class":
        m = I.modules.find_method(v.name, attr)
        if m is not None:
            fdef, modname, q = m
            return [(st, FunV("def", node=fdef, modname=modname, name=q + "." + attr, clsqual=q))]
        return [(st, Exc("AttributeError", f"type object has no attribute {attr}", I.where(node)))]
    if isinstance(v, StrV):
        return [(st, FunV("libbound", selfv=v, name="str." + attr))]
    if isinstance(v, NamedTupV):
        if attr in v.fields:
            return [(st, v.items[v.fields.index(attr)])]
        return [(st, Exc("AttributeError", f"'{v.tname}' object has no attribute '{attr}'", I.where(node)))]
    if isinstance(v, DictV):
        return [(st, FunV("libbound", selfv=v, name="dict." + attr))]
    if isinstance(v, Num):
        if attr == "item":
            return [(st, FunV("libbound", selfv=v, name="scalar.item"))]
    if isinstance(v, AnyV):
        return [(st, FunV("libbound", selfv=v, name="any." + attr))]
    raise EngineError(f"attribute {attr} of {v} at {I.where(node)}")


_NP_NAMES = None


def lib_exists(full):
    """does `numpy.X` / `scipy...X` exist in the interpreter the repository runs under (/venv/bin/python)?"""
    global _NP_NAMES
    top = full.split(".")[0]
    if top not in ("numpy", "scipy"):
        return True
    if _NP_NAMES is None:
        py = os.environ.get("PYVC_TARGET_PYTHON", "/venv/bin/python")
        code = ("import json,numpy,numpy.random,scipy.interpolate\n"
                "print(json.dumps({'numpy':dir(numpy),'numpy.random':dir(numpy.random),'scipy.interpolate':dir(scipy.interpolate),"
                "'numpy.ndarray':dir(numpy.ndarray)}))")
        out = subprocess.run([py, "-c", code], capture_output=True, text=True, timeout=120)
        if out.returncode != 0:
            raise EngineError("cannot query target interpreter: " + out.stderr[-300:])
        _NP_NAMES = json.loads(out.stdout)
    mod, _, name = full.rpartition(".")
    if mod in _NP_NAMES:
        return name in _NP_NAMES[mod]
    return True


LIB_CONSTS = {
    "numpy.nan": lambda: AnyV("nan"),
    "numpy.float64": lambda: ModV("numpy.float64"),
    "numpy.int64": lambda: ModV("numpy.int64"),
    "numpy.inf": lambda: AnyV("inf"),
}

from .libcalls import call_lib, call_libmethod, call_uninterp, call_object, cm_enter, cm_exit, instantiate_abstract, ext_getitem  # noqa: E402



def instantiate_abstract(I, st, fv, pos, kws, node, opaque_kwargs=False):
    """`cls(...)` where cls is a parameter constrained to the subclasses of an abstract class: an object of the abstract class
    built by the *contract* of its constructor; its methods are called by the protocol contracts of the abstract class (each
    concrete subclass is verified against the same clauses - behavioural subtyping)."""
    return I.instantiate(st, fv, pos, kws, node, opaque_kwargs)
