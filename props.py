"""Property table: which functions under contract (and which lemmas) decide each property."""
M = 'traffic_weaver.'
SAU = M + 'sorted_array_utils.'

A_REAL = ("A-real: float/float64 arithmetic is treated as exact real arithmetic (rounding, overflow, NaN/inf, -0.0 not "
          "modelled); every proved equality is an equality over the reals")

PROPS = {
    'C10': dict(
        functions=[SAU + 'find_closest_lower_equal_element_indices_to_values',
                   SAU + 'find_closest_higher_equal_element_indices_to_values',
                   SAU + 'find_closest_lower_or_higher_element_indices_to_values',
                   SAU + 'find_closest_element_indices_to_values'],
        level='proof',
        explanation=("Definitional postconditions (largest element <= query / smallest >= / nearest with ties to the lower index, "
                     "fill values outside the range) proved for all lengths and all real values by three inductive invariants per scan; "
                     "the dispatcher is proved against the three callee contracts."),
        assumptions=[A_REAL, "ties of the 'closest' variant created by floating-point rounding of the two subtractions are outside the real model",
                     "precondition: x strictly increasing and non-empty, lookup non-decreasing and non-empty (from the property's quantifier)"],
        monitor_quick=[],
    ),
}
