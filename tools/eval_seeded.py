"""apply each seeded change to /repo, confirm its demonstration, run the check(s), undo.  Results -> seeded/<id>/result.json"""
import json, os, subprocess, sys, time
ids = sys.argv[1:] or sorted(os.listdir('/verif/seeded'))
env = dict(os.environ, PYTHONPATH='/repo/src')
for sid in ids:
    d = f'/verif/seeded/{sid}'
    if not os.path.exists(f'{d}/patch.diff'):
        continue
    meta = json.load(open(f'{d}/meta.json'))
    pid = meta.get('property', sid.split('_')[0])
    assert subprocess.run(['git', '-C', '/repo', 'status', '--porcelain', '--untracked-files=no'], capture_output=True, text=True).stdout.strip() == '', 'repo dirty'
    clean = subprocess.run(['/venv/bin/python', f'{d}/demo.py'], env=env, capture_output=True, text=True, cwd='/tmp', timeout=600)
    ap = subprocess.run(['git', '-C', '/repo', 'apply', f'{d}/patch.diff'], capture_output=True, text=True)
    res = dict(id=sid, property=pid, apply_ok=ap.returncode == 0, demo_clean_exit=clean.returncode)
    try:
        if ap.returncode == 0:
            demo = subprocess.run(['/venv/bin/python', f'{d}/demo.py'], env=env, capture_output=True, text=True, cwd='/tmp', timeout=600)
            res['demo_patched_exit'] = demo.returncode
            res['demo_output'] = (demo.stdout + demo.stderr)[-400:]
            t = subprocess.run(['/venv/bin/python', '-m', 'pytest', '-q', '-p', 'no:cacheprovider', '--timeout=900', '--continue-on-collection-errors'],
                               cwd='/repo', capture_output=True, text=True, timeout=900)
            res['tests_tail'] = t.stdout.strip().splitlines()[-1] if t.stdout.strip() else ''
            checks = {}
            for p in [pid] + [x for x in meta.get('also', [])]:
                t0 = time.time()
                c = subprocess.run(['./check', p], cwd='/verif', capture_output=True, text=True, timeout=3000)
                lines = [l for l in c.stdout.splitlines() if l.startswith('VIOLATION') or l.startswith('UNDECIDED') or l.startswith('CHECKER')]
                checks[p] = dict(exit=c.returncode, lines=lines[:3], wall_s=round(time.time() - t0, 1),
                                 failed=[l.strip() for l in c.stdout.splitlines() if l.strip().startswith('failed:')][:6])
            res['checks'] = checks
    finally:
        subprocess.run(['git', '-C', '/repo', 'checkout', '--', '.'], capture_output=True)
    json.dump(res, open(f'{d}/result.json', 'w'), indent=1)
    ch = res.get('checks', {})
    print(sid, 'apply', res['apply_ok'], 'demo clean/patched', res['demo_clean_exit'], res.get('demo_patched_exit'), res.get('tests_tail', ''),
          {k: (v['exit'], v['lines'][:1], v['wall_s']) for k, v in ch.items()}, flush=True)
