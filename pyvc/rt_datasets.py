"""Native replay for C18: calls the real load_dataset for every documented name with the two generic loading routines
patched to record their arguments (no network, no file access).  /venv/bin/python -m pyvc.rt_datasets <out.json>"""
import glob
import json
import os
import re
import sys


def main(out):
    import traffic_weaver.datasets as D
    import traffic_weaver.datasets._base as B
    import traffic_weaver.datasets._datasets  # noqa
    mods = [sys.modules[m] for m in list(sys.modules) if m.startswith("traffic_weaver.datasets._")]
    calls = []

    def fake_remote(remote=None, dataset_filename=None, dataset_folder=None, **kw):
        calls.append(("remote", remote.url, remote.checksum, remote.filename, os.path.normpath(f"{dataset_folder}/{dataset_filename}")))
        return "DATA"

    def fake_res(file_name, *a, **kw):
        calls.append(("file", file_name))
        return "DATA"
    # bundled datasets: evaluate the run-time contract of load_csv_dataset_from_resources on the real files (exhaustive: 19 files)
    import numpy as np
    bundled_ok = 0
    problems = []
    for n in sorted(k for k in dir(D._datasets) if k.startswith("load_sandvine_")):
        ds = n[len("load_"):]
        try:
            a = D.load_dataset(ds)
            x, y = D.load_dataset(ds, unpack_dataset_columns=True)
            good = (isinstance(a, np.ndarray) and a.ndim == 2 and a.shape[1] == 2 and a.shape[0] >= 1 and a.dtype == np.float64
                    and bool(np.all(np.isfinite(a))) and bool(np.all(np.diff(a[:, 0]) > 0))
                    and np.array_equal(x, a[:, 0]) and np.array_equal(y, a[:, 1]))
            if good:
                # a later load must not depend on what a caller did to an earlier result (no shared buffers between loads)
                try:
                    a[:] = np.nan
                    x[:] = -1.0
                    y[:] = np.inf
                except Exception:
                    pass
                b = D.load_dataset(ds)
                bx, by = D.load_dataset(ds, unpack_dataset_columns=True)
                good = (isinstance(b, np.ndarray) and b.ndim == 2 and b.shape[1] == 2 and bool(np.all(np.isfinite(b)))
                        and bool(np.all(np.diff(b[:, 0]) > 0)) and np.array_equal(bx, b[:, 0]) and np.array_equal(by, b[:, 1]))
                if not good:
                    problems.append(dict(name=ds, problem="a second load returns data corrupted by an in-place change of the first result (shared buffer)"))
                    continue
        except Exception as e:
            good = False
            problems.append(dict(name=ds, problem=f"bundled: {type(e).__name__}: {e}"))
            continue
        if good:
            bundled_ok += 1
        else:
            problems.append(dict(name=ds, problem="bundled file is not a finite (k, 2) float array with strictly increasing first column"))
    # remote datasets through the REAL load_csv_dataset_from_remote with the network replaced by a stub that writes a file
    # identifying the requested URL: every name must trigger exactly one download of its own file into its own cache slot
    import gzip as _gz
    import tempfile
    downloads = []

    def fake_fetch(remote, dirname=None, **kw):
        downloads.append(remote.url)
        ident = float(len(downloads))
        pth = os.path.join(dirname or ".", remote.filename)
        text = f"0,{ident}\n1,{ident}\n".encode()
        with (_gz.open(pth, "wb") if str(remote.filename).endswith(".gz") else open(pth, "wb")) as f:
            f.write(text)
        return pth
    real_fetch = getattr(B, "_fetch_remote", None)
    old_env = os.environ.get("TRAFFIC_WEAVER_DATA")
    if real_fetch is not None:
        with tempfile.TemporaryDirectory() as home:
            os.environ["TRAFFIC_WEAVER_DATA"] = home
            B._fetch_remote = fake_fetch
            first_remote = None
            try:
                got = B.get_data_home()
                if os.path.realpath(got) != os.path.realpath(home):
                    problems.append(dict(name="TRAFFIC_WEAVER_DATA", problem=f"get_data_home() returns {got}, not the directory named by the variable"))
                dd = os.path.join(os.path.dirname(B.__file__), "data_description")
                for f in sorted(glob.glob(os.path.join(dd, "*.md"))):
                    for line in open(f, encoding="utf-8"):
                        mm = re.match(r"^\|\s*\d+\s*\|\s*([^|\s]+)\s*\|", line)
                        if not mm or mm.group(1).startswith("sandvine"):
                            continue
                        n = mm.group(1)
                        first_remote = first_remote or n
                        before = len(downloads)
                        try:
                            data = D.load_dataset(n)
                        except Exception as e:
                            problems.append(dict(name=n, problem=f"remote (stubbed network): {type(e).__name__}: {e}"))
                            continue
                        if len(downloads) != before + 1:
                            problems.append(dict(name=n, problem=f"{len(downloads) - before} downloads for a name requested for the first time (cache slot shared with another dataset?)"))
                        elif not (getattr(data, "shape", None) == (2, 2) and float(data[0, 1]) == float(len(downloads))):
                            problems.append(dict(name=n, problem="the data returned is not the file downloaded for this name"))
                # history: TRAFFIC_WEAVER_DATA changed later in the same process -> the cache lives under the NEW directory
                if first_remote is not None:
                    with tempfile.TemporaryDirectory() as home2:
                        os.environ["TRAFFIC_WEAVER_DATA"] = home2
                        try:
                            got = B.get_data_home()
                            if os.path.realpath(got) != os.path.realpath(home2):
                                problems.append(dict(name="TRAFFIC_WEAVER_DATA", problem=f"after the variable was changed to {home2} in the same "
                                                     f"process get_data_home() still returns {got}"))
                            before = len(downloads)
                            D.load_dataset(first_remote)
                            files2 = [f for _, _, fs in os.walk(home2) for f in fs]
                            if len(downloads) != before + 1 or not files2:
                                problems.append(dict(name=first_remote, problem="after TRAFFIC_WEAVER_DATA was changed the cache file is not "
                                                     "created under the directory it names (history: load, change the variable, load)"))
                        except Exception as e:
                            problems.append(dict(name=first_remote, problem=f"after changing TRAFFIC_WEAVER_DATA: {type(e).__name__}: {e}"))
                        os.environ["TRAFFIC_WEAVER_DATA"] = home
            finally:
                B._fetch_remote = real_fetch
                if old_env is None:
                    os.environ.pop("TRAFFIC_WEAVER_DATA", None)
                else:
                    os.environ["TRAFFIC_WEAVER_DATA"] = old_env
    for m in mods:
        if hasattr(m, "load_csv_dataset_from_remote"):
            m.load_csv_dataset_from_remote = fake_remote
        if hasattr(m, "load_csv_dataset_from_resources"):
            m.load_csv_dataset_from_resources = fake_res
    d = os.path.join(os.path.dirname(B.__file__), "data_description")
    names = []
    for f in sorted(glob.glob(os.path.join(d, "*.md"))):
        for line in open(f, encoding="utf-8"):
            m = re.match(r"^\|\s*\d+\s*\|\s*([^|\s]+)\s*\|", line)
            if m:
                names.append(m.group(1))
    slots = {}
    for n in names:
        del calls[:]
        try:
            D.load_dataset(n)
        except Exception as e:
            problems.append(dict(name=n, problem=f"{type(e).__name__}: {e}"))
            continue
        if len(calls) != 1:
            problems.append(dict(name=n, problem=f"{len(calls)} load events"))
            continue
        c = calls[0]
        keys = [("file", c[1])] if c[0] == "file" else [("url", c[1]), ("checksum", c[2]), ("remote-filename", c[3]), ("cache-slot", c[4])]
        for k in keys:
            if k in slots:
                problems.append(dict(name=n, problem=f"shares {k[0]} {k[1]} with {slots[k]}"))
            slots[k] = n
    json.dump(dict(status="violation" if problems else "none", kind="datasets", names=len(names), bundled_files_ok=bundled_ok,
                   problems=problems), open(out, "w"), indent=1)
    for p in problems[:40]:
        print("REPLAY:", p["name"], "-", p["problem"])
    return 1 if problems else 0


if __name__ == "__main__":
    sys.exit(main(sys.argv[1]))
