"""Contract database, the pure (specification) evaluator, modular calls and the per-function
verification driver."""
import ast
import importlib
import importlib.util
import itertools
import os
import sys

import z3

from .core import *
from . import lib as L
from . import spec as S
from .interp import Interp, Frame
from . import lemmas as LM


class FObj:
    """frozen object: fields resolved against one heap"""

    def __init__(self, cls, fields, ref=None):
        self.cls = cls
        self.fields = fields
        self.ref = ref


class FIter:
    def __init__(self, seq, pos):
        self.seq = seq
        self.pos = pos


class F2:
    def __init__(self, o):
        self.o = o


def freeze(I, v, heap, depth=0):
    if isinstance(v, Ref):
        o = heap.get(v.id)
        if isinstance(o, (SeqVal, ViewVal)):
            rs = L.rseq(I, None, v, heap=heap)
            rs.ref = v
            return rs
        if isinstance(o, ObjVal):
            return FObj(o.cls, {k: freeze(I, x, heap, depth + 1) for k, x in o.fields.items()}, v)
        if isinstance(o, IterVal):
            return FIter(freeze(I, o.seq, heap, depth + 1), o.pos)
        if isinstance(o, Seq2Val):
            return F2(o)
        if isinstance(o, L.MaskedVal):
            return AnyV("masked")
        raise EngineError(f"freeze {type(o).__name__}")
    if isinstance(v, NamedTupV):
        return NamedTupV(v.tname, v.fields, [freeze(I, x, heap, depth + 1) for x in v.items])
    if isinstance(v, TupV):
        t = TupV([freeze(I, x, heap, depth + 1) for x in v.items])
        return t
    return v


def loader_name_term(d):
    """specification of the name -> loader mapping: 'load_' / 'fetch_' + name with '-' replaced by '_'"""
    if d.concrete:
        return ("load_" if d.s.startswith("sandvine") else "fetch_") + d.s.replace("-", "_")
    t = d.term()
    rep = ReplaceAll(t, z3.StringVal("-"), z3.StringVal("_"))
    return z3.If(z3.PrefixOf(z3.StringVal("sandvine"), t), z3.Concat(z3.StringVal("load_"), rep), z3.Concat(z3.StringVal("fetch_"), rep))


class Clause:
    def __init__(self, name, args, expr, file, module, opaque=False):
        self.name = name
        self.args = args
        self.expr = expr
        self.file = file
        self.module = module
        self.opaque = opaque


# ---- opaque specification functions -------------------------------------------------------------------------------------
# A helper decorated with @opaque is not unfolded where it is used: a call becomes an application of an uninterpreted function
# over its numeric arguments (one function per helper and per value of its non-numeric arguments), and the defining equation
# `forall numeric args. F(args) == body` is added to the path condition (pattern F(args)).  Conservative extension: F is fresh.
_PROBE = z3.Int("__opaque_probe")
_OPAQUE = {}


def _fingerprint(v, keep):
    if isinstance(v, Num):
        keep.append(v.t)
        return ("n", v.kind, v.t.get_id())
    if isinstance(v, FObj):
        return ("o", v.cls, tuple((k, _fingerprint(x, keep)) for k, x in sorted(v.fields.items())))
    if isinstance(v, L.RSeq):
        e = v.elem(_PROBE)
        et = e.t if isinstance(e, Num) else None
        if et is None:
            raise EngineError("opaque helper: sequence of non-numeric elements")
        keep.extend([v.length, et])
        return ("s", v.length.get_id(), et.get_id())
    if isinstance(v, (TupV,)):
        return ("t", tuple(_fingerprint(x, keep) for x in v.items))
    if isinstance(v, NoneV):
        return ("none",)
    raise EngineError(f"opaque helper: argument of type {type(v).__name__}")


class SpecDB:
    def __init__(self, contracts_dir):
        self.dir = contracts_dir
        self.clauses = {}       # (module file, name) -> Clause
        self.helpers = {}       # module file -> {name: Clause}
        self.contracts = S.REGISTRY
        self.classes = S.CLASSES
        self.loaded = []
        self.defs = []          # definitional axioms produced while evaluating clauses
        self.os_model = None
        self.lemma_axioms = []

    def load(self, names=None):
        sys.path.insert(0, os.path.dirname(self.dir.rstrip("/")))
        for fn in sorted(os.listdir(self.dir)):
            if not fn.endswith(".py") or fn.startswith("_"):
                continue
            if names and fn[:-3] not in names:
                continue
            path = os.path.join(self.dir, fn)
            before = set(S.REGISTRY)
            before_cls = set(S.CLASSES)
            spec = importlib.util.spec_from_file_location("contracts_" + fn[:-3], path)
            mod = importlib.util.module_from_spec(spec)
            spec.loader.exec_module(mod)
            tree = ast.parse(open(path).read(), filename=path)
            helpers = {}
            for node in tree.body:
                if isinstance(node, ast.FunctionDef):
                    if node.name.startswith("gen_"):
                        continue           # run-time input generators (bounded stand-in), not contract clauses
                    body = [b for b in node.body if not (isinstance(b, ast.Expr) and isinstance(b.value, ast.Constant))]
                    if len(body) != 1 or not isinstance(body[0], ast.Return):
                        raise EngineError(f"{path}:{node.lineno}: clause {node.name} must be a single return")
                    cl = Clause(node.name, [a.arg for a in node.args.args], body[0].value, path, fn[:-3],
                                opaque=any(isinstance(d, ast.Name) and d.id == "opaque" for d in node.decorator_list))
                    helpers[node.name] = cl
            self.helpers[path] = helpers
            for q, c in S.REGISTRY.items():
                if c.file is None and any(getattr(f, "__module__", None) == mod.__name__ for f in c.funcs.values()):
                    c.file = path
                elif c.file is None and q not in before:
                    c.file = path
            for q, c in S.CLASSES.items():
                if c.file is None and q not in before_cls:
                    c.file = path
            self.loaded.append(path)

    def get(self, qual):
        return self.contracts.get(qual)

    def clause(self, c, name):
        return self.helpers[c.file][name]

    # ------------------------------------------------------------ evaluation of clauses

    def eval_clause(self, I, st, cl, env, env_now=None, boolean=True, collect_defs=None):
        p = Pure(self, I, st, cl.file)
        missing = [a for a in cl.args if a not in env]
        if missing:
            raise Unbound(f"clause {cl.name}: cannot bind {missing}")
        v = p.ev(cl.expr, {a: env[a] for a in cl.args}, env_now)
        for d in p.defs:
            if collect_defs is not None and z3.is_quantifier(d) is False and not (z3.is_quantifier(d)):
                collect_defs.append(d)
            elif not any(x.get_id() == d.get_id() for x in st.pc):
                st.assume(d)
        if boolean:
            return p.as_bool(v)
        if not isinstance(v, Num):
            raise EngineError(f"clause {cl.name} must be numeric")
        return v.t

    def eval_invariant(self, I, contract, name, st, node, info, boolean=True):
        cl = self.clause(contract, name)
        env = {}
        for a in cl.args:
            if a == "_i":
                if info is None:
                    raise Unbound("_i outside a for loop")
                env[a] = st.env[info["cname"]]
            elif a == "last_result":
                if st.env.get("__last_result") is None:
                    raise Unbound("last_result: no contract call happened yet")
                env[a] = freeze(I, st.env["__last_result"], st.heap)
            elif a.endswith("__head"):
                snap = st.env.get("__head_env")
                base = a[:-6]
                if not isinstance(snap, tuple) or base not in snap[0]:
                    raise Unbound(f"{a}: no loop-head snapshot of `{base}`")
                env[a] = freeze(I, snap[0][base], snap[1])
            elif a.endswith("__pre"):
                base = a[:-5]
                if st.env0 is None or base not in st.env0:
                    raise Unbound(f"invariant {name}: no parameter {base}")
                env[a] = freeze(I, st.env0[base], st.heap0)
            elif info is not None and isinstance(node, ast.For) and isinstance(node.target, ast.Name) and a == node.target.id \
                    and isinstance(node.iter, ast.Call):
                # the loop variable denotes the *next* item at the loop head
                outs = info["item"](st, st.env[info["cname"]].t)
                env[a] = outs[0][1]
            elif a in st.env and st.env[a] is not None:
                env[a] = freeze(I, st.env[a], st.heap)
            else:
                raise Unbound(f"invariant {name} of {contract.qual}: local `{a}` does not exist at loop {I.where(node)}")
        return self.eval_clause(I, st, cl, env, boolean=boolean)

    # ------------------------------------------------------------ symbolic values from types

    def alternatives(self, t):
        """expand a type into a list of concrete-shape types (forking at the entry of a function)"""
        if t.tag == "Opt" and t.args[0].tag not in ("Real", "Int"):
            return [S.NoneT] + self.alternatives(t.args[0])
        if t.tag == "OneOfT":
            out = []
            for x in t.args:
                out.extend(self.alternatives(x))
            return out
        return [t]

    def make(self, I, st, t, name):
        tag = t.tag
        if tag == "Real":
            return Num(z3.Real(fresh_name(name)), "real")
        if tag == "Int":
            return Num(z3.Int(fresh_name(name)), "int")
        if tag == "Bool":
            return Num(z3.Bool(fresh_name(name)), "bool")
        if tag == "Str":
            return StrV(z3.String(fresh_name(name)))
        if tag == "None":
            return NONE
        if tag == "Any":
            return AnyV(name)
        if tag == "Const":
            return L.const(t.args[0])
        if tag == "Opt":
            inner = self.make(I, st, t.args[0], name)
            return OptV(z3.Bool(fresh_name(name + "_isnone")), inner)
        if tag == "Seq":
            et = t.args[0]
            dt = {"Real": "real", "Int": "int", "Bool": "bool"}[et.tag]
            n = z3.Int(fresh_name(name + "_len"))
            st.assume(n >= 0)
            kind = t.kw.get("kind", "ndarray")
            if kind == "ndarray":
                ref = L.fresh_seq(st, "ndarray", dt, n, name)
            elif kind == "list":
                ref = L.fresh_seq(st, "list", dt, n, name)
            elif kind == "arraylike":
                ref = L.fresh_seq(st, "ndarray", dt, n, name, is_nd=z3.Bool(fresh_name(name + "_isnd")),
                                  is_f64=z3.Bool(fresh_name(name + "_isf64")))
            else:
                raise EngineError(kind)
            return ref
        if tag == "Seq2":
            r, c = z3.Int(fresh_name(name + "_rows")), z3.Int(fresh_name(name + "_cols"))
            st.assume(z3.And(r >= 0, c >= 0))
            Fn = z3.Function(fresh_name(name), z3.IntSort(), z3.IntSort(), z3.RealSort())
            Nn = z3.Function(fresh_name(name + "_isnan"), z3.IntSort(), z3.IntSort(), z3.BoolSort())
            return st.alloc(Seq2Val("real", r, c, lambda a, b: Num(Fn(a, b), "real"), lambda a, b: Nn(a, b)))
        if tag == "Tuple":
            return TupV([self.make(I, st, x, f"{name}_{i}") for i, x in enumerate(t.args)])
        if tag == "Fn":
            n = t.args[0]
            fn = z3.Function(fresh_name(name), *([z3.RealSort()] * (n + 1)))
            return FunV("uninterp", fn=fn, name=name)
        if tag == "Kwargs":
            return DictV({}, opaque=True)
        if tag == "Named":
            fields = list(t.kw)
            return NamedTupV(t.args[0], fields, [self.make(I, st, t.kw[f], f"{name}.{f}") for f in fields])
        if tag == "Obj":
            cls = t.args[0]
            shape = self.classes.get(cls)
            fields = {}
            src = dict(shape.fields) if shape else {}
            src.update(t.kw)
            for k, ft in src.items():
                fields[k] = self.make(I, st, ft, f"{name}.{k}")
            return st.alloc(ObjVal(cls, fields))
        if tag == "Class":
            return FunV("absclass", name=t.args[0])
        raise EngineError(f"make {t}")

    def assume_class_invariants(self, I, st, v):
        """class invariants of every object reachable from v hold (assumed at entry / for results)"""
        if isinstance(v, Ref) and isinstance(st.heap.get(v.id), ObjVal):
            o = st.heap[v.id]
            shape = self.classes.get(o.cls)
            if shape:
                for inv in shape.invariants:
                    cl = self.helpers[shape.file][inv]
                    st.assume(self.eval_clause(I, st, cl, {cl.args[0]: freeze(I, v, st.heap)}))

    def class_invariant_goals(self, I, st, v):
        out = []
        if isinstance(v, Ref) and isinstance(st.heap.get(v.id), ObjVal):
            o = st.heap[v.id]
            shape = self.classes.get(o.cls)
            if shape:
                for inv in shape.invariants:
                    cl = self.helpers[shape.file][inv]
                    out.append((inv, self.eval_clause(I, st, cl, {cl.args[0]: freeze(I, v, st.heap)})))
        return out

    # ------------------------------------------------------------ modular call

    def call_by_contract(self, I, st, c, fdef, env, node):
        wh = I.where(node)
        pre_env = {k: freeze(I, v, st.heap) for k, v in env.items()}
        short = c.qual.split(".")[-1]
        caller_c = self.get(st.frame.funcqual)
        deferred = caller_c is not None and short in caller_c.opts.get("defer_call_pre", ())
        for name in c.requires:
            g = self.eval_clause(I, st, self.clause(c, name), pre_env)
            if deferred:
                # NOT discharged here: listed as an assumption of this run (decided by another tier / bounded monitoring)
                I.assumed.add(f"deferred: precondition {short}.{name} at calls from {st.frame.funcqual.split('.')[-2]}.{st.frame.funcqual.split('.')[-1]} "
                              f"(division safety) is not discharged for symbolic n; {caller_c.opts.get('defer_note', '')}")
                st.assume(g)
                continue
            I.oblige(st, g, "call-pre", f"{short}.{name}", wh)
        res = []
        cur = st
        for exc, name in c.raises.items():
            cond = self.eval_clause(I, cur, self.clause(c, name), pre_env)
            if exc in c.opts.get("raises_only_if", ()):
                bad = I.fork(cur)
                bad.assume(cond)
                res.append((bad, Exc(exc, f"may be raised by {short}", wh)))
                continue
            excs, cur = I.may_raise(cur, cond, exc, f"raised by {short}", wh)
            res.extend(excs)
            if cur is None:
                return res
        for exc in c.raises_only:
            bad = I.fork(cur)
            res.append((bad, Exc(exc, f"may be raised by {short}", wh)))
        st = cur
        if c.opts.get("assumed_contract"):
            I.assumed.add(f"assumed contract of {c.qual} (not verified statically; see level_note)")
        if c.opts.get("event"):
            st.ghost.setdefault("events", []).append((c.opts["event"], dict(env)))
        heap_pre = dict(st.heap)
        # frame: havoc what the callee may modify
        for m in c.modifies:
            v = env.get(m)
            self.havoc_reachable(I, st, v)
        rets = self.alternatives(c.returns) if c.returns is not None else [S.NoneT]
        for i, rt in enumerate(rets):
            s = I.fork(st) if i < len(rets) - 1 else st
            r = self.make(I, s, rt, short + "_res")
            self.assume_class_invariants(I, s, r)
            now_env = {k: freeze(I, v, s.heap) for k, v in env.items()}
            e = dict(pre_env)
            e["result"] = freeze(I, r, s.heap)
            now_env["result"] = e["result"]
            s.env["__last_result"] = r
            for name in c.ensures:
                if name in c.opts.get("no_export", ()):
                    continue
                if str(c.opts.get("assumed", {}).get(name, "")).startswith("bounded"):
                    continue              # run-time-only reading (bounded stand-in): nothing a caller's proof may use
                if name in c.opts.get("assumed", {}):
                    I.assumed.add(f"assumed contract clause {c.qual.split('.')[-1]}.{name}: {c.opts['assumed'][name]}")
                cl = self.clause(c, name)
                f = self.eval_clause(I, s, cl, e, env_now=now_env)
                if z3.is_false(z3.simplify(f)):
                    s = None              # this result shape contradicts the callee's postcondition: not a possible outcome
                    break
                s.assume(f)
            if s is not None:
                res.append((s, r))
        return res

    def havoc_reachable(self, I, st, v):
        if isinstance(v, Ref):
            o = st.heap.get(v.id)
            if isinstance(o, SeqVal):
                st.heap[v.id] = L.fresh_heap_of_shape(I, st, L.heap_shape(I, st, o), o, v.id)
            elif isinstance(o, ViewVal):
                self.havoc_reachable(I, st, Ref(o.base))
            elif isinstance(o, ObjVal):
                shape = self.classes.get(o.cls)
                flds = dict(o.fields)
                if shape:
                    for k, ft in shape.fields.items():
                        flds[k] = self.make(I, st, ft, k)
                st.heap[v.id] = ObjVal(o.cls, flds)

    # ------------------------------------------------------------ misc hooks used by library models

    def str_replace_all(self, s, a, b):
        return StrV(ReplaceAll(s.term(), a.term(), b.term()))

    def getattr_symbolic(self, I, st, obj, name, node):
        if isinstance(obj, ModV) and I.modules.is_repo_module(obj.name):
            mi = I.modules.load(obj.name)
            names = sorted(mi.globals)
            present = z3.Or([name.term() == z3.StringVal(n) for n in names])
            excs, ok = I.may_raise(st, z3.Not(present), "AttributeError", f"module {obj.name} has no such attribute", I.where(node))
            res = list(excs)
            if ok is not None:
                res.append((ok, AnyV("module-attribute")))
            return res
        raise EngineError("getattr with a symbolic name")

    def instantiate_abstract(self, I, st, fv, pos, kws, node, opaque_kwargs):
        raise EngineError("abstract class instantiation")

    def np_concatenate(self, I, st, pos, kws, node):
        raise EngineError("np.concatenate")


# =============================================================================== pure evaluator


class Pure:
    def __init__(self, db, I, st, file):
        self.db = db
        self.I = I
        self.st = st
        self.file = file
        self.defs = []
        self.env_now = None

    def as_bool(self, v):
        if isinstance(v, Num):
            if v.kind == "bool":
                return v.t
            return v.t != 0
        if isinstance(v, bool):
            return z3.BoolVal(v)
        raise EngineError(f"clause value is not boolean: {v}")

    def opaque_call(self, h, args):
        num_ix = [i for i, a in enumerate(args) if isinstance(a, Num) and a.kind in ("int", "real")]
        keep = []
        key = (self.file, h.name, tuple(_fingerprint(a, keep) if i not in num_ix else ("num", a.kind) for i, a in enumerate(args)))
        ent = _OPAQUE.get(key)
        if ent is None:
            sorts = [z3.IntSort() if args[i].kind == "int" else z3.RealSort() for i in num_ix]
            bvs = [z3.Const(fresh_name(f"{h.name}_{h.args[i]}"), so) for i, so in zip(num_ix, sorts)]
            env = {}
            for i, a in enumerate(args):
                env[h.args[i]] = Num(bvs[num_ix.index(i)], a.kind) if i in num_ix else a
            sub = Pure(self.db, self.I, None, self.file)      # no simplification under a particular path condition
            body = sub.ev(h.expr, env)
            if not isinstance(body, Num):
                raise EngineError(f"opaque helper {h.name} must be numeric / Boolean")
            rs = {"int": z3.IntSort(), "real": z3.RealSort(), "bool": z3.BoolSort()}[body.kind]
            fn = z3.Function(fresh_name("SPEC_" + h.name), *(sorts + [rs]))
            app = fn(*bvs)
            ax = z3.ForAll(bvs, app == body.t, patterns=[app]) if bvs else (app == body.t)
            ent = (fn, ax, body.kind, list(sub.defs), keep, [a for a in args])
            _OPAQUE[key] = ent
        fn, ax, kind, subdefs, _, _ = ent
        for d in subdefs + [ax]:
            if not any(x.get_id() == d.get_id() for x in self.defs):
                self.defs.append(d)
        return Num(fn(*[args[i].t for i in num_ix]), kind)

    def ev(self, node, env, env_now=None):
        if env_now is not None:
            self.env_now = env_now
        m = getattr(self, "p_" + type(node).__name__, None)
        if m is None:
            raise EngineError(f"spec: unsupported {type(node).__name__} at {self.file}:{getattr(node, 'lineno', '?')}")
        return m(node, env)

    def p_Constant(self, node, env):
        return L.const(node.value)

    def p_Name(self, node, env):
        if node.id in env:
            return env[node.id]
        if node.id in ("True", "False"):
            return BoolN(node.id == "True")
        h = self.db.helpers[self.file].get(node.id)
        if h is not None:
            return ("helper", h)
        raise EngineError(f"spec: unbound name {node.id} at {self.file}:{node.lineno}")

    def p_Tuple(self, node, env):
        return TupV([self.ev(e, env) for e in node.elts])

    def p_List(self, node, env):
        items = [self.ev(e, env) for e in node.elts]
        rs = L.RSeq(z3.IntVal(len(items)), L._items_elem(items), "list", L._items_dtype(items), False, False)
        return rs

    def p_Attribute(self, node, env):
        v = self.ev(node.value, env)
        if isinstance(v, FObj):
            if node.attr in v.fields:
                return v.fields[node.attr]
            raise EngineError(f"spec: no field {node.attr} in {v.cls}")
        if isinstance(v, NamedTupV):
            return v.items[v.fields.index(node.attr)]
        raise EngineError(f"spec: attribute {node.attr} of {v}")

    def p_UnaryOp(self, node, env):
        v = self.ev(node.operand, env)
        if isinstance(node.op, ast.Not):
            return Num(z3.Not(self.as_bool(v)), "bool")
        if isinstance(node.op, ast.USub):
            t = -v.t
            return Num(z3.simplify(t) if z3.is_int_value(v.t) or z3.is_rational_value(v.t) else t, v.kind)
        raise EngineError("spec unary")

    def p_BoolOp(self, node, env):
        is_and = isinstance(node.op, ast.And)
        vs = []
        for v in node.values:
            b = self.as_bool(self.ev(v, env))
            bs = z3.simplify(b)
            if (is_and and z3.is_false(bs)) or (not is_and and z3.is_true(bs)):
                return BoolN(not is_and)          # short-circuit on a concrete operand (later operands may be ill-typed)
            vs.append(b)
        return Num(z3.And(*vs) if is_and else z3.Or(*vs), "bool")

    def p_IfExp(self, node, env):
        c = self.as_bool(self.ev(node.test, env))
        cs = z3.simplify(c)
        if z3.is_true(cs):
            return self.ev(node.body, env)
        if z3.is_false(cs):
            return self.ev(node.orelse, env)
        if self.st is not None and L._qf(cs):
            # decide the condition under the path condition (keeps spec terms identical to the code's on this path)
            if L.entails(self.st, cs):
                return self.ev(node.body, env)
            if L.entails(self.st, z3.Not(cs)):
                return self.ev(node.orelse, env)
        a, b = self.ev(node.body, env), self.ev(node.orelse, env)
        return L.ite_val(c, a, b)

    def p_BinOp(self, node, env):
        a, b = self.ev(node.left, env), self.ev(node.right, env)
        op = type(node.op).__name__
        if isinstance(a, OptV):
            a = a.val
        if isinstance(b, OptV):
            b = b.val
        if not (isinstance(a, Num) and isinstance(b, Num)):
            raise EngineError(f"spec: arithmetic on {a}, {b} at {self.file}:{node.lineno}")
        if op in ("Add", "Sub", "Mult", "Div"):
            return L.scalar_op_total(op, a, b)
        if op == "FloorDiv":
            # specification-level // and %: SMT-LIB div/mod, which coincide with Python's for a positive divisor
            # (contracts only divide by lengths / window sizes that their own clauses constrain to be >= 1)
            return Num(to_int(a) / to_int(b), "int")
        if op == "Mod":
            return Num(to_int(a) % to_int(b), "int")
        if op == "Pow":
            t = L.power(None, None, a, b, None)
            return Num(t, "int" if t.sort() == z3.IntSort() else "real")
        raise EngineError(f"spec op {op}")

    def p_Compare(self, node, env):
        vals = [self.ev(node.left, env)] + [self.ev(c, env) for c in node.comparators]
        parts = []
        for i, op in enumerate(node.ops):
            a, b = vals[i], vals[i + 1]
            o = type(op).__name__
            if o in ("Is", "IsNot"):
                if isinstance(b, NoneV):
                    r = a.isnone if isinstance(a, OptV) else z3.BoolVal(isinstance(a, NoneV))
                else:
                    raise EngineError("spec: `is` only with None")
                parts.append(z3.Not(r) if o == "IsNot" else r)
            elif o in ("Eq", "NotEq"):
                r = L.eq_val(self.I, self.st, a, b)
                parts.append(z3.Not(r) if o == "NotEq" else r)
            elif o in ("In", "NotIn"):
                items = b.items if isinstance(b, TupV) else [b.elem(z3.IntVal(k)) for k in range(b.conc_len())]
                r = z3.Or([L.eq_val(self.I, self.st, a, x) for x in items]) if items else z3.BoolVal(False)
                parts.append(z3.Not(r) if o == "NotIn" else r)
            else:
                if isinstance(a, OptV):
                    a = a.val
                if isinstance(b, OptV):
                    b = b.val
                parts.append(L.scalar_op_total(o, a, b).t)
        return Num(z3.And(*parts) if len(parts) > 1 else parts[0], "bool")

    def index(self, v, idx):
        if isinstance(v, L.RSeq):
            t = to_int(idx)
            c = conc_int(t)
            if c is not None and c < 0:
                t = v.length + c
            return v.elem(t)
        if isinstance(v, TupV):
            c = conc_int(to_int(idx))
            if c is None:
                raise EngineError("spec: symbolic tuple index")
            return v.items[c]
        if isinstance(v, F2):
            raise EngineError("spec: 2-D needs [r, c]")
        raise EngineError(f"spec: index into {v}")

    def p_Subscript(self, node, env):
        v = self.ev(node.value, env)
        sl = node.slice
        if isinstance(sl, ast.Slice):
            if not isinstance(v, L.RSeq):
                raise EngineError("spec: slice of non-sequence")
            lo = to_int(self.ev(sl.lower, env)) if sl.lower is not None else z3.IntVal(0)
            hi = to_int(self.ev(sl.upper, env)) if sl.upper is not None else v.length
            if sl.step is not None:
                raise EngineError("spec: strided slice")
            clo, chi = conc_int(lo), conc_int(hi)
            if clo is not None and clo < 0:
                lo = v.length + clo
            if chi is not None and chi < 0:
                hi = v.length + chi
            e = v.elem
            return L.RSeq(z3.If(hi > lo, hi - lo, z3.IntVal(0)), lambda i, lo=lo, e=e: e(lo + i), v.kind, v.dtype, v.is_nd, v.is_f64)
        if isinstance(sl, ast.Tuple) and isinstance(v, F2):
            r, c = [to_int(self.ev(x, env)) for x in sl.elts]
            return v.o.elem2(r, c)
        return self.index(v, self.ev(sl, env))

    def quant(self, node, env, kind):
        """forall/exists(range(..), lambda v: body); directly nested quantifiers of the same kind are merged into one
        z3 quantifier (better triggers: the body's array reads mention all bound variables)"""
        vars_, guards = [], []
        cur, cenv = node, dict(env)
        concrete_parts = None
        while True:
            rng, lam = cur.args
            if not (isinstance(rng, ast.Call) and isinstance(rng.func, ast.Name) and rng.func.id == "range"):
                raise EngineError("spec: forall/exists need range(...)")
            bounds = [to_int(self.ev(a, cenv)) for a in rng.args]
            lo, hi = (z3.IntVal(0), bounds[0]) if len(bounds) == 1 else bounds[:2]
            if not isinstance(lam, ast.Lambda) or len(lam.args.args) != 1:
                raise EngineError("spec: quantifier body must be a one-argument lambda")
            vn = lam.args.args[0].arg
            clo, chi = conc_int(lo), conc_int(hi)
            if clo is not None and chi is not None and chi - clo <= 6 and not vars_:
                parts = [self.as_bool(self.ev(lam.body, dict(cenv, **{vn: IntN(k)}))) for k in range(clo, chi)]
                if kind == "forall":
                    return Num(z3.And(*parts) if parts else z3.BoolVal(True), "bool")
                return Num(z3.Or(*parts) if parts else z3.BoolVal(False), "bool")
            x = z3.Int(fresh_name(vn))
            vars_.append(x)
            guards.append(z3.And(x >= lo, x < hi))
            cenv[vn] = Num(x, "int")
            b = lam.body
            if isinstance(b, ast.Call) and isinstance(b.func, ast.Name) and b.func.id == kind and len(b.args) == 2:
                cur = b
                continue
            body = self.as_bool(self.ev(b, cenv))
            break
        g = z3.And(*guards) if len(guards) > 1 else guards[0]
        if kind == "forall":
            return Num(z3.ForAll(vars_, z3.Implies(g, body)), "bool")
        return Num(z3.Exists(vars_, z3.And(g, body)), "bool")

    def p_Call(self, node, env):
        f = node.func
        if isinstance(f, ast.Name):
            name = f.id
            if name in ("forall", "exists"):
                return self.quant(node, env, name)
            if name == "now":
                if self.env_now is None:
                    raise EngineError("spec: now() outside a postcondition")
                saved = self.env_now
                return self.ev(node.args[0], dict(env, **{k: v for k, v in saved.items() if k in env}))
            if name == "seq_of":
                n = to_int(self.ev(node.args[0], env))
                lam = node.args[1]
                vn = lam.args.args[0].arg
                ev_, env_ = self.ev, env
                return L.RSeq(n, lambda i, lam=lam, vn=vn: ev_(lam.body, dict(env_, **{vn: Num(i, "int")})), "list", "real", False, False)
            if name == "arr_of":
                v = self.ev(node.args[0], env)
                A = L.array_term(self.I, self.st, v)
                r = L.RSeq(v.length, L.arr_elem(A, "real"), "list", "real", False, False, arr=A)
                return r
            if name == "sum_range":
                lo, hi = to_int(self.ev(node.args[0], env)), to_int(self.ev(node.args[1], env))
                lam = node.args[2]
                vn = lam.args.args[0].arg
                A, ax = named_array(lambda k: to_real(self.ev(lam.body, dict(env, **{vn: Num(k, "int")}))))
                if ax is not None:
                    self.defs.append(ax)
                self.I.need_sum = True
                return Num(SUM(A, lo, hi), "real")
            args = [self.ev(a, env) for a in node.args]
            if name in ("min", "max", "abs", "absr", "pw", "trunc", "float", "eq", "le", "lt"):
                args = [a.val if isinstance(a, OptV) else a for a in args]
            if name in env and isinstance(env[name], FunV):
                fv = env[name]
                if fv.kind == "uninterp":
                    return Num(fv.fn(*[to_real(a) for a in args]), "real")
                if fv.kind == "lambda":
                    tmp = self.I.fork(self.st)
                    self.I.dry += 1
                    try:
                        outs = self.I.call_lambda(tmp, fv, args, {}, node)
                    finally:
                        self.I.dry -= 1
                    outs = [(a, b) for a, b in outs if not isinstance(b, Exc)]
                    if len(outs) != 1:
                        raise EngineError("spec: function argument is not a simple expression lambda")
                    return outs[0][1]
                raise EngineError(f"spec: cannot apply {fv}")
            if name == "len":
                v = args[0]
                if isinstance(v, L.RSeq):
                    return Num(v.length, "int")
                if isinstance(v, TupV):
                    return IntN(len(v.items))
                if isinstance(v, F2):
                    return Num(v.o.rows, "int")
                raise EngineError(f"spec: len of {v}")
            if name == "nan_at":
                m2, r, c = args
                nm = m2.o.nanmask2
                return Num(nm(to_int(r), to_int(c)) if nm else z3.BoolVal(False), "bool")
            if name == "ncols":
                return Num(args[0].o.cols, "int")
            if name == "implies":
                return Num(z3.Implies(self.as_bool(args[0]), self.as_bool(args[1])), "bool")
            if name == "iff":
                return Num(self.as_bool(args[0]) == self.as_bool(args[1]), "bool")
            if name == "ite":
                return L.ite_val(self.as_bool(args[0]), args[1], args[2])
            if name == "eq":
                return Num(L.eq_val(self.I, self.st, args[0], args[1]), "bool")
            if name in ("le", "lt"):
                return L.scalar_op_total("LtE" if name == "le" else "Lt", args[0], args[1])
            if name in ("abs", "absr"):
                v = args[0]
                return Num(z3.If(v.t >= 0, v.t, -v.t), v.kind)
            if name in ("min", "max"):
                a, b = args
                k = "int" if a.kind == "int" and b.kind == "int" else "real"
                x, y = (a.t, b.t) if k == "int" else (to_real(a), to_real(b))
                return Num(z3.If(x <= y, x, y) if name == "min" else z3.If(x >= y, x, y), k)
            if name == "pw":
                return Num(POW(z3.simplify(to_real(args[0])), z3.simplify(to_real(args[1]))), "real")
            if name == "trunc":
                return Num(trunc_real(to_real(args[0])), "int")
            if name == "float":
                return Num(to_real(args[0]), "real")
            if name == "is_seq":
                return BoolN(isinstance(args[0], L.RSeq))
            if name == "std_of":
                v = args[0]
                A = L.array_term(self.I, self.st, v)
                return Num(STD(A, v.length), "real")
            if name == "n_normal_calls":
                return IntN(len(self.st.ghost.get("normal_calls", [])))
            if name in ("normal_loc", "normal_scale", "normal_size", "normal_result"):
                k = conc_int(to_int(args[0]))
                calls = self.st.ghost.get("normal_calls", [])
                if k is None or k >= len(calls):
                    return Num(z3.RealVal(0), "real") if name != "normal_result" else L.RSeq(z3.IntVal(0), lambda i: RealN(0), "ndarray", "real")
                v = calls[k][name[7:]]
                if name == "normal_size":
                    return Num(v, "int")
                return freeze(self.I, v, self.st.heap)
            as_implication = False
            if name.endswith("_IMP") and name[:-4] in LM.SUM_LEMMAS:
                name = name[:-4]          # keep the instance as an implication (premise not established here)
                as_implication = True
            if name in LM.SUM_LEMMAS:
                # application of a lemma that is proved (by induction) in the same check run: its instance is assumed
                vs, hi, body, pats = LM._stmt(name)
                formals = vs + [hi]
                if len(formals) != len(args):
                    raise EngineError(f"lemma {name} takes {len(formals)} arguments")
                subst = []
                for fv_, a in zip(formals, args):
                    if fv_.sort() == ARR:
                        subst.append((fv_, L.array_term(self.I, self.st, a)))
                    elif fv_.sort() == z3.IntSort():
                        subst.append((fv_, to_int(a)))
                    else:
                        subst.append((fv_, to_real(a)))
                inst = z3.substitute(body, *subst)
                self.I.lemmas_applied.add(name)
                if z3.is_implies(inst) and self.st is not None and not as_implication:
                    # Dafny-style lemma call: the instance's premise is an obligation *here*, only its conclusion is assumed
                    ante, concl = inst.children()
                    for d in self.defs:
                        self.st.assume(d)
                    self.defs = []
                    self.I.oblige(self.st, ante, "lemma-pre", name, f"{self.file.split('/')[-1]}:{node.lineno}", assume=False)
                    self.defs.append(concl)
                else:
                    self.defs.append(inst)
                return BoolN(True)
            if name in ("min_of", "max_of"):
                v = args[0]
                A = L.array_term(self.I, self.st, v)
                for ax in extreme_axioms(A, v.length, name == "min_of"):
                    self.defs.append(ax)
                return Num((MINF if name == "min_of" else MAXF)(A, v.length), "real")
            if name == "nearest":
                # SOME index satisfying the definitional spec of the search strategy, if one exists (Hilbert choice; the
                # spec determines the index uniquely).  strategy: concrete or symbolic string.
                xs, v, strat = args
                A = L.array_term(self.I, self.st, xs)
                n = xs.length
                vt = to_real(v)
                out = None
                for code, sname in ((0, "closest"), (1, "lower"), (2, "higher")):
                    K = NEAR(A, n, vt, z3.IntVal(code))
                    k = z3.Int(fresh_name("k"))
                    vv = z3.Real(fresh_name("v"))

                    def spec(r, val, code=code):
                        i = z3.Int(fresh_name("i"))
                        inb = z3.And(r >= 0, r < n)
                        if code == 1:
                            return z3.If(val < A[0], r == 0, z3.And(inb, A[r] <= val, z3.ForAll([i], z3.Implies(z3.And(i >= 0, i < n, A[i] <= val), i <= r))))
                        if code == 2:
                            return z3.If(val > A[n - 1], r == n - 1, z3.And(inb, A[r] >= val, z3.ForAll([i], z3.Implies(z3.And(i >= 0, i < n, A[i] >= val), i >= r))))
                        ab = lambda t: z3.If(t >= 0, t, -t)
                        return z3.And(inb, z3.ForAll([i], z3.Implies(z3.And(i >= 0, i < n), z3.And(ab(A[r] - val) <= ab(A[i] - val),
                                                                                                 z3.Implies(ab(A[i] - val) == ab(A[r] - val), r <= i)))))
                    # definitional axiom, for every value v (trigger: the NEAR term): if some index satisfies the spec, NEAR does
                    key = ("near", A.get_id(), n.get_id(), code)
                    cache = self.st.ghost.setdefault("__neardefs", {})
                    if key not in cache:
                        Kv = NEAR(A, n, vv, z3.IntVal(code))
                        cache[key] = z3.ForAll([vv], z3.Implies(z3.Exists([k], spec(k, vv)), spec(Kv, vv)), patterns=[Kv])
                        self.defs.append(cache[key])
                    if isinstance(strat, StrV) and strat.concrete:
                        if strat.s == sname:
                            out = K
                    else:
                        out = K if out is None else out
                        out = z3.If(strat.term() == z3.StringVal(sname), K, out) if code else K
                if out is None:
                    raise EngineError("nearest: unknown strategy")
                return Num(out, "int")
            if name in ("fs_kind", "fs_content", "fs0_kind", "fs0_content", "net_calls", "net_calls0", "sha", "good", "good_data",
                        "data_of", "unpickle", "path_join"):
                from . import oslib
                st_ = self.st
                if name == "path_join":
                    t = args[0].term()
                    for p_ in args[1:]:
                        t = z3.Concat(t, z3.StringVal("/"), p_.term())
                    return StrV(t)
                if name in ("fs_kind", "fs_content"):
                    f_ = oslib.fs_get(st_, args[0])
                    return Num(f_.kind, "int") if name == "fs_kind" else StrV(f_.content)
                if name in ("fs0_kind", "fs0_content"):
                    oslib.fs_get(st_, args[0])
                    f0 = st_.ghost.get("fs0", {}).get(oslib.key_of(args[0]))
                    if f0 is None:
                        f0 = oslib.fs_get(st_, args[0])
                    return Num(f0.kind, "int") if name == "fs0_kind" else StrV(f0.content)
                if name == "net_calls":
                    return Num(oslib.net_calls(st_), "int")
                if name == "net_calls0":
                    return Num(st_.ghost.get("net_calls0", z3.IntVal(0)), "int")
                if name == "sha":
                    return StrV(oslib.SHA(args[0].term()))
                if name == "good":
                    return Num(oslib.GOOD(args[0].term(), args[1].term(), self.as_bool(args[2])), "bool")
                if name == "unpickle":
                    return Num(oslib.UNPICKLE(args[0].term()), "int")
                if name in ("data_of", "good_data"):
                    v = args[0]
                    did = getattr(v.o, "data_id", None) if isinstance(v, F2) else None
                    if did is None:
                        raise EngineError("spec: value has no data identity")
                    if name == "data_of":
                        return Num(did, "int")
                    return Num(oslib.GOODDATA(did, args[1].term(), self.as_bool(args[2])), "bool")
            if name in ("file_pos", "file_content", "hash_acc", "strlen", "strcat", "substr"):
                if name == "file_pos":
                    return args[0].fields["pos"]
                if name == "file_content":
                    return args[0].fields["content"]
                if name == "hash_acc":
                    return args[0].fields["acc"]
                if name == "strlen":
                    return Num(z3.Length(args[0].term()), "int")
                if name == "strcat":
                    return StrV(z3.Concat(args[0].term(), args[1].term()))
                return StrV(z3.SubString(args[0].term(), to_int(args[1]), to_int(args[2])))
            if name in ("env_is_set", "env_value", "expanduser"):
                from .libcalls import ENV_SET, ENV_VAL, EXPANDUSER
                t = args[0].term()
                if name == "env_is_set":
                    return Num(ENV_SET(t), "bool")
                return StrV(ENV_VAL(t) if name == "env_value" else EXPANDUSER(t))
            if name == "known_loader":
                # the loader name load_dataset derives from the dataset name is bound in the aggregation module
                d = args[0]
                mi = self.I.modules.load("traffic_weaver.datasets._datasets")
                names = sorted(n for n in mi.globals)
                fn = loader_name_term(d)
                if isinstance(fn, str):
                    b = mi.globals.get(fn)
                    ok = b is not None and not (b[0] == "from" and self.I.modules.resolve_from(b[1], b[2])[0] == "missing")
                    return BoolN(ok)
                return Num(z3.Or([fn == z3.StringVal(n) for n in names]), "bool")
            if name == "index_of":
                # Hilbert-choice style definition: SOME index holding v, if there is one (conservative extension)
                xs, v = args
                A = L.array_term(self.I, self.st, xs)
                K = IDXOF(A, xs.length, to_real(v))
                i = z3.Int(fresh_name("i"))
                self.defs.append(z3.Implies(z3.Exists([i], z3.And(i >= 0, i < xs.length, A[i] == to_real(v))),
                                            z3.And(K >= 0, K < xs.length, A[K] == to_real(v))))
                return Num(K, "int")
            if name == "is_2d":
                return BoolN(isinstance(args[0], F2))
            if name == "ident":
                return Num(IDENT(to_int(args[0])), "int")
            if name == "is_tuple":
                return BoolN(isinstance(args[0], TupV))
            if name == "is_none":
                v = args[0]
                return Num(v.isnone if isinstance(v, OptV) else z3.BoolVal(isinstance(v, NoneV)), "bool")
            if name == "is_ndarray":
                v = args[0]
                if isinstance(v, L.RSeq):
                    return Num(v.is_nd if z3.is_expr(v.is_nd) else z3.BoolVal(bool(v.is_nd)), "bool")
                return BoolN(isinstance(v, F2))
            if name == "is_f64":
                v = args[0]
                return Num(v.is_f64 if z3.is_expr(v.is_f64) else z3.BoolVal(bool(v.is_f64)), "bool")
            if name == "it_pos":
                return Num(args[0].pos, "int")
            if name == "strictly_increasing":
                v = args[0]
                i, j = z3.Int(fresh_name("i")), z3.Int(fresh_name("j"))
                return Num(z3.ForAll([i, j], z3.Implies(z3.And(i >= 0, i < j, j < v.length), to_real(v.elem(i)) < to_real(v.elem(j)))), "bool")
            if name == "non_decreasing":
                v = args[0]
                i, j = z3.Int(fresh_name("i")), z3.Int(fresh_name("j"))
                return Num(z3.ForAll([i, j], z3.Implies(z3.And(i >= 0, i < j, j < v.length), to_real(v.elem(i)) <= to_real(v.elem(j)))), "bool")
            if name == "same_len":
                return Num(args[0].length == args[1].length, "bool")
            if name == "same_object":
                a, b = args
                ra, rb = getattr(a, "ref", None), getattr(b, "ref", None)
                return BoolN(ra is not None and rb is not None and ra.id == rb.id)
            h = self.db.helpers[self.file].get(name)
            if h is not None:
                if len(h.args) != len(args):
                    raise EngineError(f"spec helper {name}: arity")
                if h.opaque:
                    return self.opaque_call(h, args)
                return self.ev(h.expr, dict(zip(h.args, args)))
            raise EngineError(f"spec: unknown function {name} at {self.file}:{node.lineno}")
        fv = self.ev(f, env)
        if isinstance(fv, FunV) and fv.kind == "uninterp":
            args = [self.ev(a, env) for a in node.args]
            return Num(fv.fn(*[to_real(a) for a in args]), "real")
        raise EngineError("spec: call of a non-name")


# =============================================================================== driver


class FunctionResult:
    def __init__(self, qual):
        self.qual = qual
        self.obligations = []
        self.paths = 0
        self.returns = 0
        self.raises = 0
        self.inlined = set()
        self.lib_used = set()
        self.assumed = set()
        self.source_sha = None
        self.error = None
        self.need_sum = False
        self.need_pow = False


def verify_function(db, modules, qual, bounded=False, sizes=None):
    """generate all obligations of one function under contract"""
    c = db.get(qual)
    if c is None or c.params is None:
        raise EngineError(f"no contract for {qual}")
    is_lemma = bool(c.opts.get("lemma"))
    if is_lemma:
        # a specification lemma: no code, `requires => ensures` for all values of the typed parameters (hints in between)
        fdef, modname, clsname = ast.parse("def lemma():\n    pass").body[0], "contracts", None
    else:
        found = modules.find_function(qual)
        if found is None:
            raise EngineError(f"function {qual} not found in the repository")
        fdef, modname, clsname = found
    import pyvc.core as _core
    _core.reset_fresh()
    _OPAQUE.clear()
    L._ENT_CACHE.clear()
    res = FunctionResult(qual)
    import hashlib
    res.source_sha = hashlib.sha256(ast.unparse(fdef).encode()).hexdigest()[:16]
    alts = [[(p, t2) for t2 in db.alternatives(t)] for p, t in c.params.items()]
    for combo in itertools.product(*alts):
        I = Interp(modules, db, bounded=bounded)
        I.verifying = qual
        I.need_sum = False
        I.index_loops(fdef)
        I._indexed.add(id(fdef))
        st = State()
        st.frame = Frame(modname, qual, clsqual=(modname + "." + clsname) if clsname else None)
        env = {}
        for p, t in combo:
            env[p] = db.make(I, st, t, p)
            if sizes and p in sizes and isinstance(env[p], Ref):
                st.assume(st.heap[env[p].id].length == sizes[p])
                o = st.heap[env[p].id]
                st.heap[env[p].id] = SeqVal(o.kind, o.dtype, z3.IntVal(sizes[p]), o.elem, is_nd=o.is_nd, is_f64=o.is_f64)
                st.heap[env[p].id].arr = getattr(o, "arr", None)
        for p in env:
            db.assume_class_invariants(I, st, env[p])
        st.env = dict(env)
        st.heap0 = dict(st.heap)
        st.env0 = dict(env)
        if c.opts.get("no_frame") and ("fs_guarantee" in c.opts or "datasets" in qual):
            n0 = z3.Int(fresh_name("net_calls0"))
            st.assume(n0 >= 0)
            st.ghost["net_calls"] = n0
            st.ghost["net_calls0"] = n0
        pre_env = {k: freeze(I, v, st.heap) for k, v in env.items()}
        for name in c.requires:
            st.assume(db.eval_clause(I, st, db.clause(c, name), pre_env))
        for name in c.hints.get(("entry", "head"), []):
            I.oblige(st, db.eval_clause(I, st, db.clause(c, name), pre_env), "hint", name, "entry")
        if c.opts.get("program_point_invariant"):
            I.pp_inv = (db, c, c.opts["program_point_invariant"], pre_env)
        combo_tag = ",".join(f"{p}:{t.tag}" for p, t in combo if len(db.alternatives(c.params[p])) > 1)
        if is_lemma:
            I.canary(st, "canary-return", "lemma")
            for name in c.ensures:
                I.oblige(st, db.eval_clause(I, st, db.clause(c, name), pre_env), "ensures", name, "lemma",
                         assume=name not in c.opts.get("no_export", ()))
            res.paths += 1
            res.returns += 1
            for o in I.obligations:
                o.lemmas = list(c.opts.get("lemmas", []))
            res.obligations.extend(I.obligations)
            res.assumed |= I.assumed
            res.lemmas_used = set(c.opts.get("lemmas", [])) | set(I.lemmas_applied) | getattr(res, "lemmas_used", set())
            continue
        outs = I.exec_block(fdef.body, st)
        for s, ctl in outs:
            res.paths += 1
            if ctl is None:
                ctl = ("ret", NONE)
            if ctl[0] == "ret":
                res.returns += 1
                finish_return(db, I, c, s, env, pre_env, ctl[1], combo_tag)
            elif ctl[0] == "exc":
                res.raises += 1
                finish_raise(db, I, c, s, env, pre_env, ctl[1], combo_tag)
            else:
                raise EngineError("break/continue at function level")
        for o in I.obligations:
            o.lemmas = list(c.opts.get("lemmas", []))
        res.obligations.extend(I.obligations)
        res.lemmas_used = set(c.opts.get("lemmas", [])) | set(I.lemmas_applied) | getattr(res, "lemmas_used", set())
        res.inlined |= I.inline_log
        res.lib_used |= I.lib_used
        res.assumed |= I.assumed
        res.need_sum = res.need_sum or I.need_sum
    return res


def materialize(I, s, v):
    """name returned array views (R with  forall i. R[i] == <element expression>): postconditions then read R[i], a term with a
    simple trigger, instead of repeating e.g. xa[n + i] whose index is re-associated by the solver's arithmetic normaliser"""
    if isinstance(v, TupV) and not isinstance(v, NamedTupV):
        return TupV([materialize(I, s, x) for x in v.items])
    if isinstance(v, L.RSeq) and getattr(v, "is_view", False) and v.arr is None and v.dtype == "real" and v.kind == "ndarray" \
            and v.nanmask is None:
        try:
            probe = v.elem(z3.Int("k!probe"))
        except EngineError:
            return v
        if not isinstance(probe, Num) or (z3.is_app(probe.t) and probe.t.decl().kind() == z3.Z3_OP_SELECT and z3.is_const(probe.t.arg(1))):
            return v
        A = L.array_term(I, s, v)
        r = L.RSeq(v.length, L.arr_elem(A, "real"), v.kind, v.dtype, v.is_nd, v.is_f64, arr=A)
        r.ref = getattr(v, "ref", None)
        return r
    return v


def frame_goals(db, I, c, s, env, strict_fields=False):
    """buffers that existed at entry and are reachable from the arguments are unchanged (in-place writes are what is
    excluded; re-binding a field of a `modifies` object to a fresh array is allowed unless strict_fields)"""
    goals = []
    seen = set()
    writes = set(getattr(c, "opts", {}).get("writes", ())) if hasattr(c, "opts") else set()

    def visit(v, path):
        if isinstance(v, Ref):
            if v.id in seen:
                return
            seen.add(v.id)
            o0 = s.heap0.get(v.id)
            o1 = s.heap.get(v.id)
            if o0 is None:
                return
            if isinstance(o0, ViewVal):
                visit(Ref(o0.base), path + ".base")
                return
            if isinstance(o0, SeqVal):
                if o1 is not o0:
                    i = z3.Int(fresh_name("fi"))
                    g = z3.And(o1.length == o0.length,
                               z3.ForAll([i], z3.Implies(z3.And(i >= 0, i < o0.length), L.eq_val(I, s, o1.elem(i), o0.elem(i)))))
                    goals.append((path, g))
                else:
                    goals.append((path, z3.BoolVal(True)))
            elif isinstance(o0, ObjVal):
                for k, x in o0.fields.items():
                    visit(x, path + "." + k)
                    if strict_fields:
                        y = o1.fields.get(k) if isinstance(o1, ObjVal) else None
                        if isinstance(x, Ref):
                            goals.append((path + "." + k + ":binding", z3.BoolVal(isinstance(y, Ref) and y.id == x.id)))
                        elif isinstance(x, Num) and isinstance(y, Num):
                            goals.append((path + "." + k + ":binding", L.eq_val(I, s, x, y)))
            elif isinstance(o0, Seq2Val):
                goals.append((path, z3.BoolVal(o1 is o0)))
        elif isinstance(v, TupV):
            for k, x in enumerate(v.items):
                visit(x, f"{path}[{k}]")
    for p, v in env.items():
        if p in writes:
            continue
        if p in c.modifies and not (isinstance(v, Ref) and isinstance(s.heap0.get(v.id), ObjVal)):
            continue
        visit(v, p)
    return goals


def fs_guarantee(db, I, c, s, pre_env, wh):
    """rely/guarantee: every file-system action of the function stays below its own temporary directory, or is the
    atomic rename of a complete, verified file onto the cache entry"""
    name = c.opts.get("fs_guarantee")
    if not name:
        return
    from . import oslib
    p = Pure(db, I, s, c.file)
    cl = db.clause(c, name)
    final = p.ev(cl.expr, {a: pre_env[a] for a in cl.args})
    fkey = oslib.key_of(final)
    tmp = s.ghost.get("tmpdirs", [])
    for act in s.ghost.get("fs_actions", []):
        kind = act[0]
        if kind == "makedirs":
            continue
        if kind == "rmtree":
            I.oblige(s, z3.BoolVal(act[1] in tmp), "fs-guarantee", "rmtree-own-tmpdir", wh, assume=False)
        elif kind == "write":
            I.oblige(s, z3.BoolVal(any(t in act[1] for t in tmp)), "fs-guarantee", "write-below-own-tmpdir", wh, assume=False)
        elif kind == "rename":
            I.oblige(s, z3.BoolVal(act[2] == fkey and any(t in act[1] for t in tmp)), "fs-guarantee", "rename-onto-cache-entry-only", wh, assume=False)
            st_ = act[3]
            chk = pre_env["remote"].items[pre_env["remote"].fields.index("checksum")].term()
            gz = pre_env["gzip"].t
            I.oblige(s, z3.And(st_.kind == 2, oslib.GOOD(st_.content, chk, gz)), "fs-guarantee", "renamed-file-complete-and-verified", wh, assume=False)


def finish_return(db, I, c, s, env, pre_env, retv, tag):
    wh = "return" + (f"[{tag}]" if tag else "")
    fs_guarantee(db, I, c, s, pre_env, wh)
    I.canary(s, "canary-return", wh)
    for exc, name in c.raises.items():
        if exc in c.opts.get("raises_only_if", ()):
            continue
        cond = db.eval_clause(I, s, db.clause(c, name), pre_env)
        I.oblige(s, z3.Not(cond), "raises-if", f"{exc}:{name}", wh, assume=False)
    now_env = {k: freeze(I, v, s.heap) for k, v in env.items()}
    e = dict(pre_env)
    e["result"] = materialize(I, s, freeze(I, retv, s.heap))
    now_env["result"] = e["result"]
    scoped = {}
    uses = c.opts.get("uses", {})

    def with_scope(name):
        """temporarily extend the path condition by the scoped hints this clause declares it uses"""
        extra = [scoped[u] for u in uses.get(name, []) if u in scoped]
        return extra
    for name in c.hints.get(("return", "head"), []):
        cl = db.clause(c, name)
        inst = []
        e_h = dict(e)
        for a_ in cl.args:           # hints (not postconditions) may also mention ghost names / locals still live at the return
            if a_ not in e_h and a_ in s.env and s.env[a_] is not None:
                e_h[a_] = freeze(I, s.env[a_], s.heap)
        g = db.eval_clause(I, s, cl, e_h, env_now=now_env, collect_defs=inst if name in c.opts.get("scoped", ()) else None)
        extra = with_scope(name)
        saved = list(s.pc)
        s.pc.extend(extra)
        if name in c.opts.get("scoped", ()):
            I.oblige(s, g, "hint", name, wh, assume=False)
            s.pc = saved
            scoped[name] = z3.And(g, *inst) if inst else g
        else:
            I.oblige(s, g, "hint", name, wh, assume=False)
            s.pc = saved
            s.assume(g)
    for name in c.ensures:
        if name in c.opts.get("assumed", {}):
            I.assumed.add(f"assumed contract clause {c.qual.split('.')[-1]}.{name}: {c.opts['assumed'][name]}")
            continue
        cl = db.clause(c, name)
        try:
            g = db.eval_clause(I, s, cl, e, env_now=now_env)
        except Unbound:
            raise
        except EngineError as err:
            # the clause cannot even be evaluated on what this path returns (e.g. None instead of an array):
            # that is a violated postcondition on this path, not a checker error
            g = z3.BoolVal(False)
            I.oblige(s, g, "ensures", name, wh + f"<result of unexpected type: {str(err)[:80]}>", assume=False)
            continue
        saved = list(s.pc)
        s.pc.extend(with_scope(name))
        I.oblige(s, g, "ensures", name, wh, assume=False)
        s.pc = saved
    if not c.opts.get("no_frame"):
        for path, g in frame_goals(db, I, c, s, env):
            I.oblige(s, g, "frame", path, wh, assume=False)
    if c.opts.get("class_invariant_exit", True):
        for p, v in env.items():
            if p in c.modifies:
                for inv, g in db.class_invariant_goals(I, s, v):
                    I.oblige(s, g, "class-inv", inv, wh)
        for inv, g in db.class_invariant_goals(I, s, retv):
            if not (isinstance(retv, Ref) and any(isinstance(v, Ref) and v.id == retv.id for v in env.values()) and not c.modifies):
                I.oblige(s, g, "class-inv", inv + "(result)", wh)


def finish_raise(db, I, c, s, env, pre_env, exc, tag):
    wh = f"{exc.where}" + (f"[{tag}]" if tag else "")
    fs_guarantee(db, I, c, s, pre_env, wh + ":" + exc.cls)
    declared = exc.cls if exc.cls in c.raises else next((k for k in c.raises if L.exc_subclass(exc.cls, k)), None)
    if declared is not None:
        cond = db.eval_clause(I, s, db.clause(c, c.raises[declared]), pre_env)
        I.oblige(s, cond, "raises-only-if", f"{declared}:{c.raises[declared]}", wh)
        # a rejected request leaves every argument (incl. self) untouched
        fenv = env
        if c.opts.get("constructor"):
            # a constructor that raises never hands the half-built object to anyone: only the arguments must be untouched
            fenv = {k: v for k, v in env.items() if k not in c.modifies}
        for path, g in frame_goals(db, I, FrameAll(c), s, fenv, strict_fields=True):
            I.oblige(s, g, "frame-on-raise", f"{exc.cls}:{path}", wh, assume=False)
    elif exc.cls in c.raises_only or any(L.exc_subclass(exc.cls, k) for k in c.raises_only):
        pass
    else:
        I.oblige(s, z3.BoolVal(False), "no-raise", exc.cls, wh)


class FrameAll:
    def __init__(self, c):
        self.modifies = []
        self.opts = {}
