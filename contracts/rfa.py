"""C04 - C07: recreate-from-average strategies (rfa.py).

Protocol (AbstractRFA): n < 2 -> ValueError; rfa() returns two ndarrays of length (m-1)*n+1 whose abscissae are the n-fold
linear oversampling of x (every n-th abscissa an original one).  Each concrete strategy is verified against the same
clause (`grid_ok`), and Weaver.recreate_from_average is verified against the protocol only."""
from pyvc.spec import *
import contracts._rfa_rt as RT      # run-time-only readings used by the `assumed=` (bounded) clauses

R = 'traffic_weaver.rfa.'
ABS = R + 'AbstractRFA'
PWC = R + 'PiecewiseConstantRFA'
FUN = R + 'FunctionRFA'
CUB = R + 'CubicSplineRFA'
LINF = R + 'LinearFixedRFA'
LINA = R + 'LinearAdaptiveRFA'
EXPF = R + 'ExpFixedRFA'
EXPA = R + 'ExpAdaptiveRFA'

class_shape(ABS, x=Seq(Real), y=Seq(Real), n=Int)
class_shape(PWC, x=Seq(Real), y=Seq(Real), n=Int)
class_shape(FUN, x=Seq(Real), y=Seq(Real), n=Int, sampling_function_supplier=Any, sampling_function_supplier_kwargs=Any)
class_shape(CUB, x=Seq(Real), y=Seq(Real), n=Int, sampling_function_supplier=Any, sampling_function_supplier_kwargs=Any)
class_shape(LINF, x=Seq(Real), y=Seq(Real), n=Int, a=Int, a_l=Int, a_r=Int)
class_shape(LINA, x=Seq(Real), y=Seq(Real), n=Int, a=Int, adaptive_smooth=Real)
class_shape(EXPF, x=Seq(Real), y=Seq(Real), n=Int, a=Int, a_l=Int, a_r=Int, b=Int, exp=Real)
class_shape(EXPA, x=Seq(Real), y=Seq(Real), n=Int, a=Int, beta=Real, adaptive_smooth=Real, exp=Real)


# ---------------------------------------------------------------------------- protocol

def series_in(self):
    """what a strategy may rely on: m >= 2 samples, strictly increasing abscissae, n >= 2"""
    return (is_ndarray(self.x) and is_ndarray(self.y) and len(self.x) >= 2 and len(self.y) == len(self.x)
            and strictly_increasing(self.x) and self.n >= 2)


def grid_ok(x, n, result):
    """C04: exactly (m-1)*n+1 samples, two ndarrays; every n-th abscissa is an original one, equally spaced in between"""
    return (is_ndarray(result[0]) and is_ndarray(result[1])
            and len(result[0]) == (len(x) - 1) * n + 1 and len(result[1]) == (len(x) - 1) * n + 1
            and forall(range(len(x)), lambda k: result[0][k * n] == x[k])
            and forall(range(len(x) - 1), lambda k: forall(range(n), lambda j:
                       eq(result[0][k * n + j], x[k] + j * (x[k + 1] - x[k]) / n))))


# ------------------------------------------------------------------- AbstractRFA.__init__

contract(ABS + '.__init__', params=dict(self=Obj(ABS), x=Seq(Real, kind='arraylike'), y=Seq(Real, kind='arraylike'), n=Int,
                                        kwargs=Kwargs), modifies=['self'], class_invariant_exit=False, constructor=True)


@raises(ABS + '.__init__', 'ValueError')
def abs_init_small_n(self, x, y, n, kwargs):
    """an oversampling factor below 2 is rejected"""
    return n < 2


def same(a, b):
    return len(a) == len(b) and forall(range(len(a)), lambda i: a[i] == b[i])


@ensures(ABS + '.__init__')
def abs_init_post(self, x, y, n, kwargs, result):
    return (now(self).n == n and is_ndarray(now(self).x) and is_ndarray(now(self).y)
            and same(now(self).x, x) and same(now(self).y, y))


# ------------------------------------------------------------------ protocol of rfa()

# The abstract method: what Weaver.recreate_from_average may rely on for ANY strategy class.  It is not verified here (the
# method has no body); every concrete strategy is verified against the same clause `grid_ok` (pwc_grid, fun_grid, linf_grid,
# expf_grid, lina_grid, expa_grid; the spline strategy at run time only).
contract(ABS + '.rfa', params=dict(self=Obj(ABS)), returns=Tuple(Seq(Real), Seq(Real)), assumed_contract=True, no_rt=True)


@requires(ABS + '.rfa')
def abs_rfa_pre(self):
    return series_in(self)


@ensures(ABS + '.rfa')
def abs_rfa_grid(self, result):
    return grid_ok(self.x, self.n, result)


@ensures(ABS + '.rfa')
def abs_rfa_increasing(self, result):
    """consequence of grid_ok for strictly increasing x (linear spacing inside every gap)"""
    return strictly_increasing(result[0])


# ------------------------------------------------------------------ PiecewiseConstantRFA

contract(PWC + '.rfa', params=dict(self=Obj(PWC)), returns=Tuple(Seq(Real), Seq(Real)))


@requires(PWC + '.rfa')
def pwc_pre(self):
    return series_in(self)


@ensures(PWC + '.rfa')
def pwc_grid(self, result):
    return grid_ok(self.x, self.n, result)


@ensures(PWC + '.rfa')
def pwc_values(self, result):
    """C05: the piecewise-constant strategy reproduces each average exactly"""
    return (forall(range(len(self.x) - 1), lambda k: forall(range(self.n), lambda j: result[1][k * self.n + j] == self.y[k]))
            and result[1][(len(self.x) - 1) * self.n] == self.y[len(self.x) - 1])


# ------------------------------------------------------------------ FunctionRFA / CubicSplineRFA

GSF = FUN + '._get_sampling_function'

# The sampling function is user code (or SciPy's CubicSpline for the cubic strategy): its contract is ASSUMED - a total function
# returning a finite real for every abscissa.  What is verified is what FunctionRFA.rfa does with it.
contract(GSF, params=dict(self=Obj(FUN)), returns=Fn(1), assumed_contract=True, no_rt=True)

contract(FUN + '.rfa', params=dict(self=Obj(FUN)), returns=Tuple(Seq(Real), Seq(Real)))


@requires(FUN + '.rfa')
def fun_pre(self):
    return series_in(self)


@ensures(FUN + '.rfa')
def fun_grid(self, result):
    """C04 for user-supplied sampling functions and the cubic spline: same grid, two ndarrays"""
    return grid_ok(self.x, self.n, result)


# -------------------------------------------------------------------- constructors of the window strategies

def window_fields_fixed(w):
    """a = max(2, trunc(alpha*n or a)), a_l = a_r = a div 2 >= 1"""
    return w.a >= 2 and w.a_l == w.a // 2 and w.a_r == w.a_l and w.a_l >= 1


contract(LINF + '.__init__', params=dict(self=Obj(LINF), x=Seq(Real, kind='arraylike'), y=Seq(Real, kind='arraylike'), n=Int,
                                         alpha=Real, a=Opt(Int)), modifies=['self'], class_invariant_exit=False, constructor=True)


@raises(LINF + '.__init__', 'ValueError')
def linf_init_small_n(self, x, y, n, alpha, a):
    return n < 2


@ensures(LINF + '.__init__')
def linf_init_post(self, x, y, n, alpha, a, result):
    return (now(self).n == n and same(now(self).x, x) and same(now(self).y, y) and is_ndarray(now(self).x) and is_ndarray(now(self).y)
            and window_fields_fixed(now(self))
            and now(self).a == max(2, trunc(alpha * n) if a is None else a))


contract(EXPF + '.__init__', params=dict(self=Obj(EXPF), x=Seq(Real, kind='arraylike'), y=Seq(Real, kind='arraylike'), n=Int,
                                         alpha=Real, beta=Real, a=Opt(Int), exp=Real), modifies=['self'], class_invariant_exit=False,
         constructor=True)


@raises(EXPF + '.__init__', 'ValueError')
def expf_init_small_n(self, x, y, n, alpha, beta, a, exp):
    return n < 2


@ensures(EXPF + '.__init__')
def expf_init_post(self, x, y, n, alpha, beta, a, exp, result):
    return (now(self).n == n and same(now(self).x, x) and same(now(self).y, y) and is_ndarray(now(self).x) and is_ndarray(now(self).y)
            and window_fields_fixed(now(self))
            and now(self).a == max(2, trunc(alpha * n) if a is None else a)
            and now(self).b == trunc(beta * now(self).a_l) and now(self).exp == exp)


contract(LINA + '.__init__', params=dict(self=Obj(LINA), x=Seq(Real, kind='arraylike'), y=Seq(Real, kind='arraylike'), n=Int,
                                         alpha=Real, a=Opt(Int), adaptive_smooth=Real), modifies=['self'], class_invariant_exit=False,
         constructor=True)


@raises(LINA + '.__init__', 'ValueError')
def lina_init_small_n(self, x, y, n, alpha, a, adaptive_smooth):
    return n < 2


@ensures(LINA + '.__init__')
def lina_init_post(self, x, y, n, alpha, a, adaptive_smooth, result):
    return (now(self).n == n and same(now(self).x, x) and same(now(self).y, y) and is_ndarray(now(self).x) and is_ndarray(now(self).y)
            and now(self).a == max(2, trunc(alpha * n) if a is None else a) and now(self).adaptive_smooth == adaptive_smooth)


contract(EXPA + '.__init__', params=dict(self=Obj(EXPA), x=Seq(Real, kind='arraylike'), y=Seq(Real, kind='arraylike'), n=Int,
                                         alpha=Real, beta=Real, a=Opt(Int), adaptive_smooth=Real, exp=Real), modifies=['self'],
         class_invariant_exit=False, constructor=True)


@raises(EXPA + '.__init__', 'ValueError')
def expa_init_small_n(self, x, y, n, alpha, beta, a, adaptive_smooth, exp):
    return n < 2


@ensures(EXPA + '.__init__')
def expa_init_post(self, x, y, n, alpha, beta, a, adaptive_smooth, exp, result):
    return (now(self).n == n and same(now(self).x, x) and same(now(self).y, y) and is_ndarray(now(self).x) and is_ndarray(now(self).y)
            and now(self).a == max(2, trunc(alpha * n) if a is None else a) and now(self).adaptive_smooth == adaptive_smooth
            and now(self).beta == beta and now(self).exp == exp)


# =============================================================================== LinearFixedRFA.rfa

BEFORE_LOOP0 = 'for k in range(1, x.nr_of_full_intervals() - 1)'


def ext_len(self):
    """one virtual interval on each side: (m + 1) * n + 1 samples"""
    return (len(self.x) + 1) * self.n + 1


def grid_x(self, xa):
    """abscissae of the extended grid: interval k (1..m-1) spans x[k-1]..x[k]; interval 0 and m are the mirrored virtual ones"""
    return (len(xa) == ext_len(self)
            and forall(range(1, len(self.x)), lambda k: forall(range(self.n + 1), lambda j:
                       xa[k * self.n + j] == self.x[k - 1] + j * (self.x[k] - self.x[k - 1]) / self.n))
            and forall(range(self.n + 1), lambda j: xa[j] == (2 * self.x[0] - self.x[1]) + j * (self.x[1] - self.x[0]) / self.n)
            and forall(range(self.n + 1), lambda j: xa[len(self.x) * self.n + j]
                       == self.x[len(self.x) - 1] + j * (self.x[len(self.x) - 1] - self.x[len(self.x) - 2]) / self.n))


def grid_y(self, ya):
    """piecewise-constant values on the extended grid"""
    return (len(ya) == ext_len(self)
            and forall(range(1, len(self.x)), lambda k: forall(range(self.n), lambda j: ya[k * self.n + j] == self.y[k - 1]))
            and forall(range(self.n), lambda j: ya[j] == self.y[0])
            and forall(range(self.n + 1), lambda j: ya[len(self.x) * self.n + j] == self.y[len(self.x) - 1]))


contract(LINF + '.rfa', params=dict(self=Obj(LINF)), returns=Tuple(Seq(Real), Seq(Real)),
         defer_call_pre=('lin_fit', 'exp_lin_fit', 'lin_exp_xy_fit'), defer_note='bounded monitoring of the strategy at run time covers it (finite values on every generated input)')


@requires(LINF + '.rfa')
def linf_pre(self):
    return series_in(self) and window_fields_fixed(self) and self.a <= self.n


@hint(LINF + '.rfa', before=BEFORE_LOOP0)
def linf_h_lens(self, x, y, z, n):
    return (n == self.n and x.n == n and y.n == n and z.n == n and len(x.a) == ext_len(self) and len(y.a) == ext_len(self)
            and len(z.a) == ext_len(self) and is_ndarray(z.a) and is_ndarray(x.a))


@invariant(LINF + '.rfa', loop=1)
def linf_inv1(self, z, n, k):
    return len(z.a) == ext_len(self) and z.n == n and is_ndarray(z.a) and 1 <= k


@invariant(LINF + '.rfa', loop=2)
def linf_inv2(self, z, n, k):
    return len(z.a) == ext_len(self) and z.n == n and is_ndarray(z.a) and 1 <= k and k <= len(self.x) - 1


@invariant(LINF + '.rfa', loop=3)
def linf_inv3(self, z, n, k):
    return len(z.a) == ext_len(self) and z.n == n and is_ndarray(z.a) and 1 <= k and k <= len(self.x) - 1


ghost(LINF + '.rfa', before='x.extend_linspace(direction=', name='osx', expr='x.a')
ghost(LINF + '.rfa', before='y.extend_constant(direction=', name='osy', expr='y.a')


@hint(LINF + '.rfa', scoped=True)
def linf_h_xs(self, osx, result):
    """the returned abscissae are the middle part of the extended grid = the initial oversampling"""
    return len(result[0]) == len(osx) and forall(range(len(osx)), lambda i: result[0][i] == osx[i])


@hint(LINF + '.rfa', scoped=True, uses=['linf_h_xs'])
def linf_h_xs_grid(self, osx, result):
    """instances of the oversampling contract at the flat index of (k, j), carried over to the returned abscissae"""
    return (forall(range(len(self.x) - 1), lambda k: forall(range(self.n), lambda j:
                   osx[k * self.n + j] == self.x[k] + j * (self.x[k + 1] - self.x[k]) / self.n
                   and result[0][k * self.n + j] == osx[k * self.n + j]))
            and forall(range(len(self.x)), lambda k: osx[k * self.n] == self.x[k] and result[0][k * self.n] == osx[k * self.n]))


@ensures(LINF + '.rfa', uses=['linf_h_xs_grid'])
def linf_grid(self, result):
    return grid_ok(self.x, self.n, result)


# ------------------------------------------------------------------------------- LinearFixedRFA.rfa: values (C05 - C07)
#
# Extended grid: interval K = 0 .. m (K = 0 and K = m are the mirrored virtual intervals, interval K = 1 .. m-1 is the original
# interval K-1).  xe(K, j) is abscissa j of interval K, ye(K) its average.

@opaque
def xe(self, K, j):
    return (((2 * self.x[0] - self.x[1]) + j * (self.x[1] - self.x[0]) / self.n) if K == 0 else
            ((self.x[len(self.x) - 1] + j * (self.x[len(self.x) - 1] - self.x[len(self.x) - 2]) / self.n) if K == len(self.x) else
             (self.x[K - 1] + j * (self.x[K] - self.x[K - 1]) / self.n)))


@opaque
def ye(self, K):
    return self.y[0] if K == 0 else (self.y[len(self.x) - 1] if K == len(self.x) else self.y[K - 1])


def lf(x, x0, y0, x1, y1):
    """funfit.lin_fit as a specification function"""
    return y0 + (y1 - y0) * ((x - x0) / (x1 - x0))


def ext_grid(self, xa, ya):
    """what the two extended arrays hold"""
    return (len(xa) == ext_len(self) and len(ya) == ext_len(self)
            and forall(range(len(self.x) + 1), lambda K: forall(range(self.n), lambda j:
                       xa[K * self.n + j] == xe(self, K, j) and ya[K * self.n + j] == ye(self, K))))


def ext_mid(self, xa, ya):
    return forall(range(1, len(self.x)), lambda K: forall(range(self.n), lambda j:
                  xa[K * self.n + j] == self.x[K - 1] + j * (self.x[K] - self.x[K - 1]) / self.n and ya[K * self.n + j] == self.y[K - 1]))


def ext_left(self, xa, ya):
    return forall(range(self.n), lambda j: xa[j] == (2 * self.x[0] - self.x[1]) + j * (self.x[1] - self.x[0]) / self.n
                  and ya[j] == self.y[0])


def ext_right(self, xa, ya):
    return forall(range(self.n), lambda j:
                  xa[len(self.x) * self.n + j] == self.x[len(self.x) - 1] + j * (self.x[len(self.x) - 1] - self.x[len(self.x) - 2]) / self.n
                  and ya[len(self.x) * self.n + j] == self.y[len(self.x) - 1])


BEFORE_LOOP = 'for k in range(1, x.nr_of_full_intervals() - 1)'


@hint(LINF + '.rfa', before=BEFORE_LOOP)
def linf_h_grid_mid(self, x, y):
    return ext_mid(self, x.a, y.a)


@hint(LINF + '.rfa', before=BEFORE_LOOP)
def linf_h_grid_left0(self, osx, x):
    """the mirrored start value in terms of the original abscissae"""
    return osx[0] == self.x[0] and osx[self.n] == self.x[1] and 2 * osx[0] - osx[self.n] == 2 * self.x[0] - self.x[1]


@hint(LINF + '.rfa', before=BEFORE_LOOP)
def linf_h_grid_left(self, x, y):
    return ext_left(self, x.a, y.a)


@hint(LINF + '.rfa', before=BEFORE_LOOP)
def linf_h_grid_right(self, x, y):
    return ext_right(self, x.a, y.a)


@hint(LINF + '.rfa', before=BEFORE_LOOP)
def linf_h_grid(self, x, y, z):
    return ext_grid(self, x.a, y.a) and forall(range(ext_len(self)), lambda t: z.a[t] == y.a[t])


@opaque
def z0(self, K):
    """value at the border between the extended intervals K-1 and K: the straight line between the plateau ends of the two
    intervals, taken at the border (C06)"""
    return lf(xe(self, K, 0), xe(self, K - 1, self.n - self.a_r), ye(self, K - 1), xe(self, K, self.a_l), ye(self, K))


@opaque
def fvl(self, K, j):
    """left transition: straight line from the border value to the plateau"""
    return lf(xe(self, K, j), xe(self, K, 0), z0(self, K), xe(self, K, self.a_l), ye(self, K))


@opaque
def fvr(self, K, j):
    """right transition: straight line from the plateau to the next border value"""
    return lf(xe(self, K, j) if j < self.n else xe(self, K + 1, 0), xe(self, K, self.n - self.a_r), ye(self, K), xe(self, K + 1, 0),
              z0(self, K + 1))


@opaque
def fv(self, K, j):
    """sample j of the extended interval K as LinearFixedRFA documents it"""
    return fvl(self, K, j) if j < self.a_l else (ye(self, K) if j <= self.n - self.a_r else fvr(self, K, j))


ghost(LINF + '.rfa', before='y_0 = y[k, 0]', name='zk', expr='z.a.copy()')


def linf_done(self, za, k):
    """intervals 1 .. k-1 are final; the border sample of interval k already carries its value; the rest is untouched"""
    return (forall(range(1, k), lambda K: forall(range(self.n), lambda j: za[K * self.n + j] == fv(self, K, j)))
            and (za[k * self.n] == z0(self, k) if k > 1 else True))


def untouched_from(self, za, ya, start):
    return forall(range(ext_len(self)), lambda t: za[t] == ya[t] if t >= start else True)


@invariant(LINF + '.rfa', loop=1)
def linf_inv1_values(self, x, y, z, k):
    return (ext_grid(self, x.a, y.a) and linf_done(self, z.a, k) and untouched_from(self, z.a, y.a, k * self.n + 1)
            and (z.a[self.n] == y.a[self.n] if k == 1 else True))


@hint(LINF + '.rfa', before='for i in range(0, self.a_l)')
def linf_h_points(self, x, y, k):
    """the grid points iteration k reads, as instances of the extended-grid fact"""
    return (x.a[k * self.n] == xe(self, k, 0) and x.a[k * self.n - self.a_r] == xe(self, k - 1, self.n - self.a_r)
            and x.a[k * self.n + self.a_l] == xe(self, k, self.a_l) and x.a[k * self.n + self.n - self.a_r] == xe(self, k, self.n - self.a_r)
            and x.a[(k + 1) * self.n] == xe(self, k + 1, 0) and x.a[(k + 1) * self.n + self.a_l] == xe(self, k + 1, self.a_l)
            and y.a[(k - 1) * self.n] == ye(self, k - 1) and y.a[k * self.n] == ye(self, k) and y.a[(k + 1) * self.n] == ye(self, k + 1))


@hint(LINF + '.rfa', before='for i in range(0, self.a_l)')
def linf_h_order(self, k):
    """the abscissae iteration k fits between are strictly ordered (so that no fit divides by zero)"""
    return (xe(self, k - 1, self.n - self.a_r) < xe(self, k, 0) and xe(self, k, 0) < xe(self, k, self.a_l)
            and xe(self, k, self.a_l) <= xe(self, k, self.n - self.a_r) and xe(self, k, self.n - self.a_r) < xe(self, k + 1, 0)
            and xe(self, k + 1, 0) < xe(self, k + 1, self.a_l))


@hint(LINF + '.rfa', before='for i in range(0, self.a_l)')
def linf_h_borders(self, x, y, k, y_0, z_0, z_1):
    """the three scalars of iteration k in terms of the specification functions"""
    return y_0 == ye(self, k) and z_0 == z0(self, k) and z_1 == z0(self, k + 1)


@invariant(LINF + '.rfa', loop=2)
def linf_inv2_values(self, x, y, z, zk, k, i):
    return (forall(range(ext_len(self)), lambda t: z.a[t] == zk[t] if t < k * self.n else True)
            and untouched_from(self, z.a, y.a, k * self.n + (i if i >= 1 else 1))
            and (z.a[k * self.n] == zk[k * self.n] if i == 0 else True)
            and forall(range(i), lambda j: z.a[k * self.n + j] == fvl(self, k, j)))


@hint(LINF + '.rfa', loop=2, when='head')
def linf_h2_point(self, x, k, i):
    return x.a[k * self.n + i] == xe(self, k, i)


@hint(LINF + '.rfa', loop=2, when='end')
def linf_h2_stored(self, z, k, i):
    """(at the end of the body `i` is the next index: the sample just written is i - 1)"""
    return z.a[k * self.n + (i - 1)] == fvl(self, k, i - 1)


@hint(LINF + '.rfa', loop=3, when='head')
def linf_h3_point_in(self, x, k, i):
    return implies(i < self.n, x.a[k * self.n + i] == xe(self, k, i))


@hint(LINF + '.rfa', loop=3, when='head')
def linf_h3_point_end(self, x, k, i):
    return implies(i == self.n, x.a[(k + 1) * self.n] == xe(self, k + 1, 0) and x.a[k * self.n + i] == x.a[(k + 1) * self.n])




@hint(LINF + '.rfa', loop=3, when='end')
def linf_h3_stored(self, z, k, i):
    return z.a[k * self.n + (i - 1)] == fvr(self, k, i - 1)


@invariant(LINF + '.rfa', loop=3)
def linf_inv3_values(self, x, y, z, zk, k, i):
    return (forall(range(ext_len(self)), lambda t: z.a[t] == zk[t] if t < k * self.n else True)
            and forall(range(self.a_l), lambda j: z.a[k * self.n + j] == fvl(self, k, j))
            and forall(range(ext_len(self)), lambda t: z.a[t] == y.a[t]
                       if (t >= k * self.n + self.a_l and (t < k * self.n + self.n - self.a_r + 1 or t >= k * self.n + i)) else True)
            and forall(range(self.n - self.a_r + 1, i), lambda j: z.a[k * self.n + j] == fvr(self, k, j)))


@hint(LINF + '.rfa', loop=1, when='end')
def linf_h1_blocks(self, k):
    """(at the end of the body `k` is the next interval) finished intervals lie entirely before the current one"""
    return forall(range(1, k - 1), lambda K: K * self.n + self.n <= (k - 1) * self.n)


@hint(LINF + '.rfa', loop=1, when='end')
def linf_h1_frame(self, z, zk, k):
    return forall(range(1, k - 1), lambda K: forall(range(self.n), lambda j: z.a[K * self.n + j] == zk[K * self.n + j]))


@hint(LINF + '.rfa', loop=1, when='end')
def linf_h1_current(self, z, k):
    return forall(range(self.n), lambda j: z.a[(k - 1) * self.n + j] == fv(self, k - 1, j))


@hint(LINF + '.rfa', loop=1, when='end')
def linf_h1_border(self, z, k):
    return z.a[k * self.n] == z0(self, k)


@ensures(LINF + '.rfa')
def linf_values(self, result):
    """C06: every recreated sample equals the documented closed form (border values = straight line between the plateau ends
    of the adjacent intervals; straight transitions; plateau at the average)"""
    return (forall(range(len(self.x) - 1), lambda q: forall(range(self.n), lambda j: eq(result[1][q * self.n + j], fv(self, q + 1, j))))
            and eq(result[1][(len(self.x) - 1) * self.n], z0(self, len(self.x))))


# =============================================================================== ExpFixedRFA.rfa (C04 structure)

contract(EXPF + '.rfa', params=dict(self=Obj(EXPF)), returns=Tuple(Seq(Real), Seq(Real)),
         defer_call_pre=('lin_fit', 'exp_lin_fit', 'lin_exp_xy_fit'), defer_note='bounded monitoring of the strategy at run time covers it (finite values on every generated input)')


@requires(EXPF + '.rfa')
def expf_pre(self):
    return (series_in(self) and window_fields_fixed(self) and self.a <= self.n and 0 <= self.b and self.b <= self.a_l
            and self.exp > 0)


@hint(EXPF + '.rfa', before='for k in range(1, x.nr_of_full_intervals() - 1)')
def expf_h_lens(self, x, y, z, n):
    return (n == self.n and x.n == n and y.n == n and z.n == n and len(x.a) == ext_len(self) and len(y.a) == ext_len(self)
            and len(z.a) == ext_len(self) and is_ndarray(z.a) and is_ndarray(x.a))


@invariant(EXPF + '.rfa', loop=1)
def expf_inv1(self, z, n, k):
    return len(z.a) == ext_len(self) and z.n == n and is_ndarray(z.a) and 1 <= k


@invariant(EXPF + '.rfa', loop=2)
def expf_inv2(self, z, n, k):
    return len(z.a) == ext_len(self) and z.n == n and is_ndarray(z.a) and 1 <= k and k <= len(self.x) - 1


@invariant(EXPF + '.rfa', loop=3)
def expf_inv3(self, z, n, k):
    return len(z.a) == ext_len(self) and z.n == n and is_ndarray(z.a) and 1 <= k and k <= len(self.x) - 1


@invariant(EXPF + '.rfa', loop=4)
def expf_inv4(self, z, n, k):
    return len(z.a) == ext_len(self) and z.n == n and is_ndarray(z.a) and 1 <= k and k <= len(self.x) - 1


@invariant(EXPF + '.rfa', loop=5)
def expf_inv5(self, z, n, k):
    return len(z.a) == ext_len(self) and z.n == n and is_ndarray(z.a) and 1 <= k and k <= len(self.x) - 1


ghost(EXPF + '.rfa', before='x.extend_linspace(direction=', name='osx', expr='x.a')


@hint(EXPF + '.rfa', scoped=True)
def expf_h_xs(self, osx, result):
    return len(result[0]) == len(osx) and forall(range(len(osx)), lambda i: result[0][i] == osx[i])


@hint(EXPF + '.rfa', scoped=True, uses=['expf_h_xs'])
def expf_h_xs_grid(self, osx, result):
    """instances of the oversampling contract at the flat index of (k, j), carried over to the returned abscissae"""
    return (forall(range(len(self.x) - 1), lambda k: forall(range(self.n), lambda j:
                   osx[k * self.n + j] == self.x[k] + j * (self.x[k + 1] - self.x[k]) / self.n
                   and result[0][k * self.n + j] == osx[k * self.n + j]))
            and forall(range(len(self.x)), lambda k: osx[k * self.n] == self.x[k] and result[0][k * self.n] == osx[k * self.n]))


@ensures(EXPF + '.rfa', uses=['expf_h_xs_grid'])
def expf_grid(self, result):
    return grid_ok(self.x, self.n, result)


# ------------------------------------------------------------------------------- ExpFixedRFA.rfa: values (C05 - C07)

def elin(x, x0, y0, x1, y1, al):
    """funfit.exp_lin_fit as a specification function (same term structure as its proved postcondition)"""
    return ((y0 + (y1 - y0) * ((x - x0) / (x1 - x0))) * ((x - x0) / (x1 - x0))
            + (y0 + (y1 - y0) * pw((x - x0) / (x1 - x0), al)) * ((x1 - x) / (x1 - x0)))


def lexy(x, x0, y0, x1, y1, al):
    """funfit.lin_exp_xy_fit as a specification function"""
    return ((y0 + (y1 - y0) * (1 - pw((x1 - x) / (x1 - x0), al))) * ((x - x0) / (x1 - x0))
            + (y0 + (y1 - y0) * ((x - x0) / (x1 - x0))) * ((x1 - x) / (x1 - x0)))


@opaque
def xr(self, K, j):
    """abscissa j of interval K where j may be n (the first abscissa of the next interval)"""
    return xe(self, K, j) if j < self.n else xe(self, K + 1, 0)


@opaque
def zlb(self, K):
    """value where the linear piece of the left transition ends (sample b): on the straight line border value -> plateau"""
    return lf(xe(self, K, self.b), xe(self, K, 0), z0(self, K), xe(self, K, self.a_l), ye(self, K))


@opaque
def zrb(self, K):
    """value where the linear piece of the right transition starts (sample n - b)"""
    return lf(xr(self, K, self.n - self.b), xe(self, K, self.n - self.a_r), ye(self, K), xe(self, K + 1, 0), z0(self, K + 1))


@opaque
def fe1(self, K, j):
    return lf(xe(self, K, j), xe(self, K, 0), z0(self, K), xe(self, K, self.b), zlb(self, K))


@opaque
def fe2(self, K, j):
    return lexy(xe(self, K, j), xe(self, K, self.b), zlb(self, K), xe(self, K, self.a_l), ye(self, K), self.exp)


@opaque
def fe4(self, K, j):
    return elin(xe(self, K, j), xe(self, K, self.n - self.a_r), ye(self, K), xr(self, K, self.n - self.b), zrb(self, K), self.exp)


@opaque
def fe5(self, K, j):
    return lf(xe(self, K, j), xr(self, K, self.n - self.b), zrb(self, K), xe(self, K + 1, 0), z0(self, K + 1))


@opaque
def fe(self, K, j):
    """sample j of the extended interval K as ExpFixedRFA documents it: linear piece, linear/power blend, plateau, power/linear
    blend, linear piece"""
    return (fe1(self, K, j) if j < self.b else
            (fe2(self, K, j) if j < self.a_l else
             (ye(self, K) if j < self.n - self.a_r else
              (fe4(self, K, j) if j < self.n - self.b else fe5(self, K, j)))))


ghost(EXPF + '.rfa', before='y_0 = y[k, 0]', name='zk', expr='z.a.copy()')


@hint(EXPF + '.rfa', before=BEFORE_LOOP)
def expf_h_grid_mid(self, x, y):
    return ext_mid(self, x.a, y.a)


@hint(EXPF + '.rfa', before=BEFORE_LOOP)
def expf_h_grid_left0(self, osx, x):
    return osx[0] == self.x[0] and osx[self.n] == self.x[1] and 2 * osx[0] - osx[self.n] == 2 * self.x[0] - self.x[1]


@hint(EXPF + '.rfa', before=BEFORE_LOOP)
def expf_h_grid_left(self, x, y):
    return ext_left(self, x.a, y.a)


@hint(EXPF + '.rfa', before=BEFORE_LOOP)
def expf_h_grid_right(self, x, y):
    return ext_right(self, x.a, y.a)


@hint(EXPF + '.rfa', before=BEFORE_LOOP)
def expf_h_grid(self, x, y, z):
    return ext_grid(self, x.a, y.a) and forall(range(ext_len(self)), lambda t: z.a[t] == y.a[t])


def frame_before(self, za, zk, k):
    return forall(range(ext_len(self)), lambda t: za[t] == zk[t] if t < k * self.n else True)


def seg1(self, za, k, hi):
    return forall(range(hi), lambda j: za[k * self.n + j] == fe1(self, k, j))


def seg2(self, za, k, hi):
    return forall(range(self.b, hi), lambda j: za[k * self.n + j] == fe2(self, k, j))


def seg4(self, za, k, hi):
    return forall(range(self.n - self.a_r, hi), lambda j: za[k * self.n + j] == fe4(self, k, j))


def seg5(self, za, k, hi):
    return forall(range(self.n - self.b, hi), lambda j: za[k * self.n + j] == fe5(self, k, j))


def plateau_untouched(self, za, ya, k, i):
    """not yet written in iteration k: the plateau a_l .. n-a_r-1 and everything from k*n + i on"""
    return forall(range(ext_len(self)), lambda t: za[t] == ya[t]
                  if (t >= k * self.n + self.a_l and (t < k * self.n + self.n - self.a_r or t >= k * self.n + i)) else True)


@invariant(EXPF + '.rfa', loop=1)
def expf_inv1_values(self, x, y, z, k):
    return (ext_grid(self, x.a, y.a)
            and forall(range(1, k), lambda K: forall(range(self.n), lambda j: z.a[K * self.n + j] == fe(self, K, j)))
            and untouched_from(self, z.a, y.a, k * self.n))


@hint(EXPF + '.rfa', before='for i in range(0, b)')
def expf_h_locals(self, a_l, a_r, b, exp, n):
    return a_l == self.a_l and a_r == self.a_r and b == self.b and exp == self.exp and n == self.n


@hint(EXPF + '.rfa', before='for i in range(0, b)')
def expf_h_points(self, x, y, k):
    return (x.a[k * self.n] == xe(self, k, 0) and x.a[k * self.n - self.a_r] == xe(self, k - 1, self.n - self.a_r)
            and x.a[k * self.n + self.a_l] == xe(self, k, self.a_l) and x.a[k * self.n + self.n - self.a_r] == xe(self, k, self.n - self.a_r)
            and x.a[(k + 1) * self.n] == xe(self, k + 1, 0) and x.a[(k + 1) * self.n + self.a_l] == xe(self, k + 1, self.a_l)
            and x.a[k * self.n + self.b] == xe(self, k, self.b)
            and y.a[(k - 1) * self.n] == ye(self, k - 1) and y.a[k * self.n] == ye(self, k) and y.a[(k + 1) * self.n] == ye(self, k + 1))


@hint(EXPF + '.rfa', before='for i in range(0, b)')
def expf_h_point_nb_in(self, x, k):
    return implies(self.b >= 1, x.a[k * self.n + self.n - self.b] == xe(self, k, self.n - self.b) and xr(self, k, self.n - self.b) == xe(self, k, self.n - self.b))


@hint(EXPF + '.rfa', before='for i in range(0, b)')
def expf_h_point_nb_end(self, x, k):
    return implies(self.b == 0, x.a[k * self.n + self.n - self.b] == xe(self, k + 1, 0) and xr(self, k, self.n - self.b) == xe(self, k + 1, 0))


@hint(EXPF + '.rfa', before='for i in range(0, b)')
def expf_h_point_nb(self, x, k):
    return x.a[k * self.n + self.n - self.b] == xr(self, k, self.n - self.b)


@hint(EXPF + '.rfa', before='for i in range(0, b)')
def expf_h_borders(self, k, y_0, z_0, z_1):
    return y_0 == ye(self, k) and z_0 == z0(self, k) and z_1 == z0(self, k + 1)


@hint(EXPF + '.rfa', before='for i in range(0, b)')
def expf_h_borders2(self, k, z_0_lb, z_0_rb):
    return z_0_lb == zlb(self, k) and z_0_rb == zrb(self, k)


@invariant(EXPF + '.rfa', loop=2)
def expf_inv2_values(self, x, y, z, zk, k, i):
    return frame_before(self, z.a, zk, k) and seg1(self, z.a, k, i) and untouched_from(self, z.a, y.a, k * self.n + i)


@hint(EXPF + '.rfa', loop=2, when='head')
def expf_h2_point(self, x, k, i):
    return x.a[k * self.n + i] == xe(self, k, i)


@hint(EXPF + '.rfa', loop=2, when='end')
def expf_h2_stored(self, z, k, i):
    return z.a[k * self.n + (i - 1)] == fe1(self, k, i - 1)


@invariant(EXPF + '.rfa', loop=3)
def expf_inv3_values(self, x, y, z, zk, k, i):
    return (frame_before(self, z.a, zk, k) and seg1(self, z.a, k, self.b) and seg2(self, z.a, k, i)
            and untouched_from(self, z.a, y.a, k * self.n + i))


@hint(EXPF + '.rfa', loop=3, when='head')
def expf_h3_point(self, x, k, i):
    return x.a[k * self.n + i] == xe(self, k, i)


@hint(EXPF + '.rfa', loop=3, when='end')
def expf_h3_stored(self, z, k, i):
    return z.a[k * self.n + (i - 1)] == fe2(self, k, i - 1)


@invariant(EXPF + '.rfa', loop=4)
def expf_inv4_values(self, x, y, z, zk, k, i):
    return (frame_before(self, z.a, zk, k) and seg1(self, z.a, k, self.b) and seg2(self, z.a, k, self.a_l) and seg4(self, z.a, k, i)
            and plateau_untouched(self, z.a, y.a, k, i))


@hint(EXPF + '.rfa', loop=4, when='head')
def expf_h4_point(self, x, k, i):
    return x.a[k * self.n + i] == xe(self, k, i)


@hint(EXPF + '.rfa', loop=4, when='end')
def expf_h4_stored(self, z, k, i):
    return z.a[k * self.n + (i - 1)] == fe4(self, k, i - 1)


@invariant(EXPF + '.rfa', loop=5)
def expf_inv5_values(self, x, y, z, zk, k, i):
    return (frame_before(self, z.a, zk, k) and seg1(self, z.a, k, self.b) and seg2(self, z.a, k, self.a_l)
            and seg4(self, z.a, k, self.n - self.b) and seg5(self, z.a, k, i) and plateau_untouched(self, z.a, y.a, k, i))


@hint(EXPF + '.rfa', loop=5, when='head')
def expf_h5_point(self, x, k, i):
    return x.a[k * self.n + i] == xe(self, k, i)


@hint(EXPF + '.rfa', loop=5, when='end')
def expf_h5_stored(self, z, k, i):
    return z.a[k * self.n + (i - 1)] == fe5(self, k, i - 1)


@hint(EXPF + '.rfa', loop=1, when='end')
def expf_h1_blocks(self, k):
    return forall(range(1, k - 1), lambda K: K * self.n + self.n <= (k - 1) * self.n)


@hint(EXPF + '.rfa', loop=1, when='end')
def expf_h1_frame(self, z, zk, k):
    return forall(range(1, k - 1), lambda K: forall(range(self.n), lambda j: z.a[K * self.n + j] == zk[K * self.n + j]))


@hint(EXPF + '.rfa', loop=1, when='end')
def expf_h1_current(self, z, k):
    return forall(range(self.n), lambda j: z.a[(k - 1) * self.n + j] == fe(self, k - 1, j))


@ensures(EXPF + '.rfa')
def expf_values(self, result):
    """C06: every recreated sample equals the documented closed form; the last sample is the last average"""
    return (forall(range(len(self.x) - 1), lambda q: forall(range(self.n), lambda j: eq(result[1][q * self.n + j], fe(self, q + 1, j))))
            and eq(result[1][(len(self.x) - 1) * self.n], ye(self, len(self.x))))


# =============================================================================== adaptive windows

GATP = LINA + '.get_adaptive_transition_points'
IA = 'traffic_weaver.interval.IntervalArray'

contract(GATP, params=dict(x=Obj(IA), y=Obj(IA), a=Int, adaptive_smooth=Real),
         returns=Tuple(Seq(Int, kind='list'), Seq(Int, kind='list'), Any), no_frame=True)


@requires(GATP)
def gatp_pre(x, y, a, adaptive_smooth):
    return (a >= 2 and adaptive_smooth > 0 and x.n >= 2 and y.n == x.n and len(y.a) == len(x.a) and len(x.a) >= 3 * x.n + 1)


def windows_ok(ws, count, a):
    """one (integer) window size per interval, virtual intervals included, each within 0..a"""
    return len(ws) == count and forall(range(count), lambda k: 0 <= ws[k] and ws[k] <= a)


@invariant(GATP, loop=1)
def gatp_inv(x, y, a, a_ls, a_rs, k):
    return (1 <= k and len(a_ls) == k and len(a_rs) == k and a >= 2
            and forall(range(k), lambda i: 0 <= a_ls[i] and a_ls[i] <= a and 0 <= a_rs[i] and a_rs[i] <= a))


def jump_r(y, i):
    """|average of interval i+1 - average of interval i|"""
    return abs(y.a[(i + 1) * y.n] - y.a[i * y.n])


def jump_l(y, i):
    return abs(y.a[i * y.n] - y.a[(i - 1) * y.n])


def split_ok(y, a, adaptive_smooth, al, ar, i):
    """C06: how the window of interval i is split between its two sides"""
    return ((al == 0 and ar == 0) if (jump_r(y, i) == 0 and jump_l(y, i) == 0) else
            ((al == a // 2 and ar == 0) if jump_r(y, i) == 0 else
             ((al == 0 and ar == a // 2) if jump_l(y, i) == 0 else
              # both sides jump: each side gets at least one sample; in proportion to gamma = (right jump / left jump) ** smooth
              (1 <= al and al <= a and 1 <= ar and ar <= a
               and al == trunc(min(max(pw(jump_r(y, i) / jump_l(y, i), adaptive_smooth) * a / (1 + pw(jump_r(y, i) / jump_l(y, i), adaptive_smooth)), 1), a))
               and ar == trunc(min(max(a / (1 + pw(jump_r(y, i) / jump_l(y, i), adaptive_smooth)), 1), a))
               # the side with the larger jump never gets the larger window (default smoothing, where documentation and code agree)
               and implies(adaptive_smooth == 1 and jump_r(y, i) >= jump_l(y, i), ar <= al)
               and implies(adaptive_smooth == 1 and jump_r(y, i) <= jump_l(y, i), al <= ar)))))


@invariant(GATP, loop=1)
def gatp_inv_first(a_ls, a_rs, k):
    return a_ls[0] == 1 and a_rs[0] == 1


@invariant(GATP, loop=1)
def gatp_inv_split(x, y, a, adaptive_smooth, a_ls, a_rs, k):
    return forall(range(1, k), lambda i: split_ok(y, a, adaptive_smooth, a_ls[i], a_rs[i], i))


@ensures(GATP)
def gatp_split(x, y, a, adaptive_smooth, result):
    return forall(range(1, len(x.a) // x.n - 1), lambda i: split_ok(y, a, adaptive_smooth, result[0][i], result[1][i], i))


@ensures(GATP)
def gatp_ends(x, y, a, adaptive_smooth, result):
    """the two virtual intervals get windows of one sample"""
    return (result[0][0] == 1 and result[1][0] == 1 and result[0][len(result[0]) - 1] == 1 and result[1][len(result[1]) - 1] == 1)


@ensures(GATP)
def gatp_post(x, y, a, adaptive_smooth, result):
    return (windows_ok(result[0], len(x.a) // x.n, a) and windows_ok(result[1], len(x.a) // x.n, a))


# =============================================================================== LinearAdaptiveRFA.rfa (C04 structure)

FITS = ('lin_fit', 'exp_lin_fit', 'lin_exp_xy_fit')
DEFER_NOTE = 'bounded monitoring of the strategy at run time covers it (finite values on every generated input)'

contract(LINA + '.rfa', params=dict(self=Obj(LINA)), returns=Tuple(Seq(Real), Seq(Real)), defer_call_pre=FITS, defer_note=DEFER_NOTE,
         merge_branches=True)


@requires(LINA + '.rfa')
def lina_pre(self):
    return series_in(self) and self.a >= 2 and self.a <= self.n and self.adaptive_smooth > 0


@hint(LINA + '.rfa', before='a_ls, a_rs, gammas = self.get_adaptive_transition_points')
def lina_h_lens(self, x, y, z, n):
    return (n == self.n and x.n == n and y.n == n and z.n == n and len(x.a) == ext_len(self) and len(y.a) == ext_len(self)
            and len(z.a) == ext_len(self) and is_ndarray(z.a) and is_ndarray(x.a))


@hint(LINA + '.rfa', before='for k in range(1, x.nr_of_full_intervals() - 1)')
def lina_h_windows(self, x, a_ls, a_rs):
    """one window per interval of the extended grid: (m + 1) intervals"""
    return (ext_len(self) // self.n == len(self.x) + 1 and windows_ok(a_ls, len(self.x) + 1, self.a)
            and windows_ok(a_rs, len(self.x) + 1, self.a))


def adaptive_loop_inv(self, z, n, k):
    return len(z.a) == ext_len(self) and z.n == n and is_ndarray(z.a) and 1 <= k and k <= len(self.x) - 1


@invariant(LINA + '.rfa', loop=1)
def lina_inv1(self, z, n, k):
    return len(z.a) == ext_len(self) and z.n == n and is_ndarray(z.a) and 1 <= k


@invariant(LINA + '.rfa', loop=2)
def lina_inv2(self, z, n, k):
    return adaptive_loop_inv(self, z, n, k)


@invariant(LINA + '.rfa', loop=3)
def lina_inv3(self, z, n, k):
    return adaptive_loop_inv(self, z, n, k)


ghost(LINA + '.rfa', before='x.extend_linspace(direction=', name='osx', expr='x.a')


@hint(LINA + '.rfa', scoped=True)
def lina_h_xs(self, osx, result):
    return len(result[0]) == len(osx) and forall(range(len(osx)), lambda i: result[0][i] == osx[i])


@hint(LINA + '.rfa', scoped=True, uses=['lina_h_xs'])
def lina_h_xs_grid(self, osx, result):
    return (forall(range(len(self.x) - 1), lambda k: forall(range(self.n), lambda j:
                   osx[k * self.n + j] == self.x[k] + j * (self.x[k + 1] - self.x[k]) / self.n
                   and result[0][k * self.n + j] == osx[k * self.n + j]))
            and forall(range(len(self.x)), lambda k: osx[k * self.n] == self.x[k] and result[0][k * self.n] == osx[k * self.n]))


@ensures(LINA + '.rfa', uses=['lina_h_xs_grid'])
def lina_grid(self, result):
    return grid_ok(self.x, self.n, result)


# ------------------------------------------------------------------------------- LinearAdaptiveRFA.rfa: values (C05 - C07)
#
# Adaptive windows as specification functions of the averages (the formula GATP is proved to compute, `split_ok`): wl(K) / wr(K)
# are the left / right window of the extended interval K.

def jr(self, K):
    return abs(ye(self, K + 1) - ye(self, K))


def jl(self, K):
    return abs(ye(self, K) - ye(self, K - 1))


@opaque
def wl(self, K):
    return (1 if (K <= 0 or K >= len(self.x)) else
            (0 if (jr(self, K) == 0 and jl(self, K) == 0) else
             (self.a // 2 if jr(self, K) == 0 else
              (0 if jl(self, K) == 0 else
               trunc(min(max(pw(jr(self, K) / jl(self, K), self.adaptive_smooth) * self.a / (1 + pw(jr(self, K) / jl(self, K), self.adaptive_smooth)), 1), self.a))))))


@opaque
def wr(self, K):
    return (1 if (K <= 0 or K >= len(self.x)) else
            (0 if (jr(self, K) == 0 and jl(self, K) == 0) else
             (0 if jr(self, K) == 0 else
              (self.a // 2 if jl(self, K) == 0 else
               trunc(min(max(self.a / (1 + pw(jr(self, K) / jl(self, K), self.adaptive_smooth)), 1), self.a))))))


@opaque
def xl(self, K, r):
    """abscissa r samples before the start of interval K (r = 0: the start itself)"""
    return xe(self, K - 1, self.n - r) if r >= 1 else xe(self, K, 0)


@opaque
def z0a(self, K):
    """border value between the intervals K-1 and K: straight line between the plateau ends of the two intervals (windows
    wr(K-1) and wl(K)) taken at the border; the common value when neither side has a window"""
    return (ye(self, K - 1) if (wr(self, K - 1) == 0 and wl(self, K) == 0) else
            lf(xe(self, K, 0), xl(self, K, wr(self, K - 1)), ye(self, K - 1), xr(self, K, wl(self, K)), ye(self, K)))


@opaque
def fal(self, K, j):
    return lf(xe(self, K, j), xe(self, K, 0), z0a(self, K), xr(self, K, wl(self, K)), ye(self, K))


@opaque
def far(self, K, j):
    return lf(xr(self, K, j), xr(self, K, self.n - wr(self, K)), ye(self, K), xe(self, K + 1, 0), z0a(self, K + 1))


@opaque
def ba(self, K):
    """first sample of interval K: the border value when a window touches the border, else the average"""
    return z0a(self, K) if (wl(self, K) >= 1 or (K > 1 and wr(self, K - 1) >= 1)) else ye(self, K)


@opaque
def fa(self, K, j):
    """sample j of the extended interval K as LinearAdaptiveRFA documents it"""
    return (ba(self, K) if j == 0 else
            (fal(self, K, j) if j < wl(self, K) else
             (ye(self, K) if j <= self.n - wr(self, K) else far(self, K, j))))


ghost(LINA + '.rfa', before='y_0 = y[k, 0]', name='zk', expr='z.a.copy()')


@hint(LINA + '.rfa', before='a_ls, a_rs, gammas = self.get_adaptive_transition_points')
def lina_h_grid_mid(self, x, y):
    return ext_mid(self, x.a, y.a)


@hint(LINA + '.rfa', before='a_ls, a_rs, gammas = self.get_adaptive_transition_points')
def lina_h_grid_left0(self, osx, x):
    return osx[0] == self.x[0] and osx[self.n] == self.x[1] and 2 * osx[0] - osx[self.n] == 2 * self.x[0] - self.x[1]


@hint(LINA + '.rfa', before='a_ls, a_rs, gammas = self.get_adaptive_transition_points')
def lina_h_grid_left(self, x, y):
    return ext_left(self, x.a, y.a)


@hint(LINA + '.rfa', before='a_ls, a_rs, gammas = self.get_adaptive_transition_points')
def lina_h_grid_right(self, x, y):
    return ext_right(self, x.a, y.a)


@hint(LINA + '.rfa', before='a_ls, a_rs, gammas = self.get_adaptive_transition_points')
def lina_h_grid(self, x, y, z):
    return ext_grid(self, x.a, y.a) and forall(range(ext_len(self)), lambda t: z.a[t] == y.a[t])


def windows_are(self, a_ls, a_rs):
    """the two lists GATP returned are the specification windows"""
    return (len(a_ls) == len(self.x) + 1 and len(a_rs) == len(self.x) + 1
            and forall(range(len(self.x) + 1), lambda K: a_ls[K] == wl(self, K) and a_rs[K] == wr(self, K)
                       and 0 <= wl(self, K) and wl(self, K) <= self.a and 0 <= wr(self, K) and wr(self, K) <= self.a))


@hint(LINA + '.rfa', before=BEFORE_LOOP)
def lina_h_jumps(self, y):
    """the averages GATP compares are the averages of the extended intervals"""
    return forall(range(len(self.x) + 1), lambda K: y.a[K * self.n] == ye(self, K))


@hint(LINA + '.rfa', before=BEFORE_LOOP)
def lina_h_windows_mid(self, y, a_ls, a_rs):
    return forall(range(1, len(self.x)), lambda K: a_ls[K] == wl(self, K) and a_rs[K] == wr(self, K))


@hint(LINA + '.rfa', before=BEFORE_LOOP)
def lina_h_windows_ends(self, y, a_ls, a_rs):
    return (a_ls[0] == wl(self, 0) and a_rs[0] == wr(self, 0) and a_ls[len(self.x)] == wl(self, len(self.x))
            and a_rs[len(self.x)] == wr(self, len(self.x)))


@hint(LINA + '.rfa', before=BEFORE_LOOP)
def lina_h_windows_are(self, a_ls, a_rs):
    return windows_are(self, a_ls, a_rs)


@invariant(LINA + '.rfa', loop=1)
def lina_inv1_values(self, x, y, z, a_ls, a_rs, k):
    return (ext_grid(self, x.a, y.a) and windows_are(self, a_ls, a_rs)
            and forall(range(1, k), lambda K: forall(range(self.n), lambda j: z.a[K * self.n + j] == fa(self, K, j)))
            and z.a[k * self.n] == ((z0a(self, k) if wr(self, k - 1) >= 1 else ye(self, k)) if k > 1 else ye(self, k))
            and untouched_from(self, z.a, y.a, k * self.n + 1))


@hint(LINA + '.rfa', before='for i in range(0, a_ls[k])')
def lina_h_points(self, x, y, k):
    return (x.a[k * self.n] == xe(self, k, 0) and x.a[k * self.n - wr(self, k - 1)] == xl(self, k, wr(self, k - 1))
            and x.a[k * self.n + wl(self, k)] == xr(self, k, wl(self, k)) and x.a[k * self.n + self.n - wr(self, k)] == xr(self, k, self.n - wr(self, k))
            and x.a[(k + 1) * self.n] == xe(self, k + 1, 0) and x.a[(k + 1) * self.n + wl(self, k + 1)] == xr(self, k + 1, wl(self, k + 1))
            and y.a[(k - 1) * self.n] == ye(self, k - 1) and y.a[k * self.n] == ye(self, k) and y.a[(k + 1) * self.n] == ye(self, k + 1))


@hint(LINA + '.rfa', before='for i in range(0, a_ls[k])')
def lina_h_z0_cases(self, x, y, a_ls, a_rs, k, z_0):
    """what the two branches assigned, in the code's own terms"""
    return (implies(a_rs[k - 1] == 0 and a_ls[k] == 0, z_0 == y.a[(k - 1) * self.n])
            and implies(not (a_rs[k - 1] == 0 and a_ls[k] == 0),
                        z_0 == lf(x.a[k * self.n], x.a[k * self.n - a_rs[k - 1]], y.a[(k - 1) * self.n], x.a[k * self.n + a_ls[k]], y.a[k * self.n])))


@hint(LINA + '.rfa', before='for i in range(0, a_ls[k])')
def lina_h_z1_cases(self, x, y, a_ls, a_rs, k, y_0, z_1):
    return implies(not (a_rs[k] == 0 and a_ls[k + 1] == 0),
                   z_1 == lf(x.a[(k + 1) * self.n], x.a[k * self.n + self.n - a_rs[k]], y_0, x.a[(k + 1) * self.n + a_ls[k + 1]], y.a[(k + 1) * self.n]))


@hint(LINA + '.rfa', before='for i in range(0, a_ls[k])')
def lina_h_windows_k(self, a_ls, a_rs, k):
    return (a_rs[k - 1] == wr(self, k - 1) and a_ls[k] == wl(self, k) and a_rs[k] == wr(self, k) and a_ls[k + 1] == wl(self, k + 1))


@hint(LINA + '.rfa', before='for i in range(0, a_ls[k])')
def lina_h_borders(self, k, y_0, z_0):
    return y_0 == ye(self, k) and z_0 == z0a(self, k)


@hint(LINA + '.rfa', before='for i in range(0, a_ls[k])')
def lina_h_xl_xr(self, k):
    """the plateau end of interval k seen from interval k+1 (xl) and from interval k (xr) is the same abscissa"""
    return implies(wr(self, k) >= 1, xl(self, k + 1, wr(self, k)) == xr(self, k, self.n - wr(self, k)))


@hint(LINA + '.rfa', before='for i in range(0, a_ls[k])')
def lina_h_border_next(self, k, z_1):
    return implies(wr(self, k) >= 1, z_1 == z0a(self, k + 1))


@invariant(LINA + '.rfa', loop=2)
def lina_inv2_values(self, x, y, z, zk, a_ls, a_rs, k, i):
    return (windows_are(self, a_ls, a_rs)
            and forall(range(ext_len(self)), lambda t: z.a[t] == zk[t] if t < k * self.n else True)
            and untouched_from(self, z.a, y.a, k * self.n + (i if i >= 1 else 1))
            and (z.a[k * self.n] == zk[k * self.n] if i == 0 else True)
            and forall(range(i), lambda j: z.a[k * self.n + j] == fal(self, k, j)))


@hint(LINA + '.rfa', loop=2, when='head')
def lina_h2_bound(self, a_ls, k, i):
    return a_ls[k] == wl(self, k) and wl(self, k) <= self.a and i <= wl(self, k) and i <= self.n


@hint(LINA + '.rfa', loop=2, when='head')
def lina_h2_point(self, x, k, i):
    """(at the loop head the loop condition is not yet known: the sample is read only when i < wl(k) <= n)"""
    return implies(i < wl(self, k), x.a[k * self.n + i] == xe(self, k, i))


@hint(LINA + '.rfa', loop=2, when='head')
def lina_h2_end_point(self, x, a_ls, k, i):
    return x.a[k * self.n + a_ls[k]] == xr(self, k, wl(self, k)) and x.a[k * self.n] == xe(self, k, 0)


@hint(LINA + '.rfa', loop=2, when='end')
def lina_h2_stored(self, z, k, i):
    return z.a[k * self.n + (i - 1)] == fal(self, k, i - 1)


@invariant(LINA + '.rfa', loop=3)
def lina_inv3_values(self, x, y, z, zk, a_ls, a_rs, k, i):
    return (windows_are(self, a_ls, a_rs)
            and forall(range(ext_len(self)), lambda t: z.a[t] == zk[t] if t < k * self.n else True)
            and forall(range(wl(self, k)), lambda j: z.a[k * self.n + j] == fal(self, k, j))
            and (z.a[k * self.n] == zk[k * self.n] if wl(self, k) == 0 else True)
            and forall(range(ext_len(self)), lambda t: z.a[t] == y.a[t]
                       if (t >= k * self.n + wl(self, k) and t >= k * self.n + 1 and (t < k * self.n + self.n - wr(self, k) + 1 or t >= k * self.n + i)) else True)
            and forall(range(self.n - wr(self, k) + 1, i), lambda j: z.a[k * self.n + j] == far(self, k, j)))


@hint(LINA + '.rfa', loop=3, when='head')
def lina_h3_point_in(self, x, k, i):
    return implies(i < self.n, x.a[k * self.n + i] == xe(self, k, i) and xr(self, k, i) == xe(self, k, i))


@hint(LINA + '.rfa', loop=3, when='head')
def lina_h3_point_end(self, x, k, i):
    return implies(i == self.n, x.a[k * self.n + i] == xe(self, k + 1, 0) and xr(self, k, i) == xe(self, k + 1, 0))


@hint(LINA + '.rfa', loop=3, when='head')
def lina_h3_end_points(self, x, a_rs, k, i):
    return (x.a[k * self.n + self.n - a_rs[k]] == xr(self, k, self.n - wr(self, k)) and x.a[k * self.n + self.n] == xe(self, k + 1, 0)
            and a_rs[k] == wr(self, k))


@hint(LINA + '.rfa', loop=3, when='end')
def lina_h3_stored(self, z, k, i):
    return z.a[k * self.n + (i - 1)] == far(self, k, i - 1)


@hint(LINA + '.rfa', loop=1, when='end')
def lina_h1_blocks(self, k):
    return forall(range(1, k - 1), lambda K: K * self.n + self.n <= (k - 1) * self.n)


@hint(LINA + '.rfa', loop=1, when='end')
def lina_h1_frame(self, z, zk, k):
    return forall(range(1, k - 1), lambda K: forall(range(self.n), lambda j: z.a[K * self.n + j] == zk[K * self.n + j]))


@hint(LINA + '.rfa', loop=1, when='end')
def lina_h1_order_r(self, k):
    """the plateau end on the right, unfolded: a point of interval k-1 strictly before the next original abscissa"""
    return implies(wr(self, k - 1) >= 1,
                   xr(self, k - 1, self.n - wr(self, k - 1)) == xe(self, k - 1, self.n - wr(self, k - 1))
                   and xe(self, k - 1, self.n - wr(self, k - 1)) == self.x[k - 2] + (self.n - wr(self, k - 1)) * (self.x[k - 1] - self.x[k - 2]) / self.n
                   and xe(self, k, 0) == self.x[k - 1] and self.x[k - 2] < self.x[k - 1])


@hint(LINA + '.rfa', loop=1, when='end')
def lina_h1_order(self, k):
    """where a window exists its two end abscissae differ (so the fit at an end point returns the end value)"""
    return (implies(wl(self, k - 1) >= 1, xe(self, k - 1, 0) < xr(self, k - 1, wl(self, k - 1)))
            and implies(wr(self, k - 1) >= 1, xr(self, k - 1, self.n - wr(self, k - 1)) < xe(self, k, 0)))


@hint(LINA + '.rfa', loop=1, when='end')
def lina_h1_end_values(self, k):
    return (implies(wl(self, k - 1) >= 1, fal(self, k - 1, 0) == z0a(self, k - 1))
            and implies(wr(self, k - 1) >= 1, xr(self, k - 1, self.n) == xe(self, k, 0) and far(self, k - 1, self.n) == z0a(self, k)))


@hint(LINA + '.rfa', loop=1, when='end')
def lina_h1_first(self, z, k):
    return z.a[(k - 1) * self.n] == ba(self, k - 1)


@hint(LINA + '.rfa', loop=1, when='end')
def lina_h1_current(self, z, k):
    return forall(range(k - 1, k), lambda K: forall(range(self.n), lambda j: z.a[K * self.n + j] == fa(self, K, j)))


@hint(LINA + '.rfa', loop=1, when='end')
def lina_h1_border(self, z, k):
    return z.a[k * self.n] == (z0a(self, k) if wr(self, k - 1) >= 1 else ye(self, k))


@ensures(LINA + '.rfa')
def lina_values(self, result):
    """C06: every recreated sample equals the documented closed form with the adaptive windows wl / wr; the last sample is the
    border value towards the last average when the last interval has a right window"""
    return (forall(range(len(self.x) - 1), lambda q: forall(range(self.n), lambda j: eq(result[1][q * self.n + j], fa(self, q + 1, j))))
            and eq(result[1][(len(self.x) - 1) * self.n], z0a(self, len(self.x)) if wr(self, len(self.x) - 1) >= 1 else ye(self, len(self.x))))


# =============================================================================== ExpAdaptiveRFA.rfa (C04 structure)

contract(EXPA + '.rfa', params=dict(self=Obj(EXPA)), returns=Tuple(Seq(Real), Seq(Real)), defer_call_pre=FITS, defer_note=DEFER_NOTE,
         merge_branches=True)


@requires(EXPA + '.rfa')
def expa_pre(self):
    return (series_in(self) and self.a >= 2 and self.a <= self.n and self.adaptive_smooth > 0 and 0 <= self.beta and self.beta <= 1
            and self.exp > 0)


@hint(EXPA + '.rfa', before='a_ls, a_rs, gammas = LinearAdaptiveRFA.get_adaptive_transition_points')
def expa_h_lens(self, x, y, z, n):
    return (n == self.n and x.n == n and y.n == n and z.n == n and len(x.a) == ext_len(self) and len(y.a) == ext_len(self)
            and len(z.a) == ext_len(self) and is_ndarray(z.a) and is_ndarray(x.a))


@hint(EXPA + '.rfa', before='for k in range(1, x.nr_of_full_intervals() - 1)')
def expa_h_windows(self, x, a_ls, a_rs, b_ls, b_rs):
    """one window per interval of the extended grid; the linear share of each window is a part of it"""
    return (ext_len(self) // self.n == len(self.x) + 1 and windows_ok(a_ls, len(self.x) + 1, self.a)
            and windows_ok(a_rs, len(self.x) + 1, self.a) and len(b_ls) == len(self.x) + 1 and len(b_rs) == len(self.x) + 1
            and forall(range(len(self.x) + 1), lambda k: 0 <= b_ls[k] and b_ls[k] <= a_ls[k] and 0 <= b_rs[k] and b_rs[k] <= a_rs[k]))


@invariant(EXPA + '.rfa', loop=1)
def expa_inv1(self, z, n, k):
    return len(z.a) == ext_len(self) and z.n == n and is_ndarray(z.a) and 1 <= k


@invariant(EXPA + '.rfa', loop=2)
def expa_inv2(self, z, n, k):
    return adaptive_loop_inv(self, z, n, k)


@invariant(EXPA + '.rfa', loop=3)
def expa_inv3(self, z, n, k):
    return adaptive_loop_inv(self, z, n, k)


@invariant(EXPA + '.rfa', loop=4)
def expa_inv4(self, z, n, k):
    return adaptive_loop_inv(self, z, n, k)


@invariant(EXPA + '.rfa', loop=5)
def expa_inv5(self, z, n, k):
    return adaptive_loop_inv(self, z, n, k)


ghost(EXPA + '.rfa', before='x.extend_linspace(direction=', name='osx', expr='x.a')


@hint(EXPA + '.rfa', scoped=True)
def expa_h_xs(self, osx, result):
    return len(result[0]) == len(osx) and forall(range(len(osx)), lambda i: result[0][i] == osx[i])


@hint(EXPA + '.rfa', scoped=True, uses=['expa_h_xs'])
def expa_h_xs_grid(self, osx, result):
    return (forall(range(len(self.x) - 1), lambda k: forall(range(self.n), lambda j:
                   osx[k * self.n + j] == self.x[k] + j * (self.x[k + 1] - self.x[k]) / self.n
                   and result[0][k * self.n + j] == osx[k * self.n + j]))
            and forall(range(len(self.x)), lambda k: osx[k * self.n] == self.x[k] and result[0][k * self.n] == osx[k * self.n]))


@ensures(EXPA + '.rfa', uses=['expa_h_xs_grid'])
def expa_grid(self, result):
    return grid_ok(self.x, self.n, result)


# =============================================================================== lemmas over the LinearFixedRFA closed form
#
# `linf_values` proves that the code computes fv(self, q + 1, j).  The shape properties of C05 and the metamorphic properties
# of C07 are properties of that specification function; they are proved here once, for all series, spacings, n and windows.

def between(v, a, b):
    return (a <= v and v <= b) if a <= b else (b <= v and v <= a)


def interior(self, K, j):
    return 1 <= K and K <= len(self.x) - 1 and 0 <= j and j < self.n


LB = 'lemma:rfa.linear_fixed.bounds'
contract(LB, params=dict(self=Obj(LINF), K=Int, j=Int), lemma=True, no_rt=True)


@requires(LB)
def lb_pre(self, K, j):
    return linf_pre(self) and interior(self, K, j)


@hint(LB, when='entry')
def lb_h_order(self, K, j):
    """abscissae of interval K and its neighbours are ordered as their sample numbers"""
    return (xe(self, K - 1, self.n - self.a_r) < xe(self, K, 0) and xe(self, K, 0) < xe(self, K, self.a_l)
            and xe(self, K, self.a_l) <= xe(self, K, self.n - self.a_r) and xe(self, K, self.n - self.a_r) < xe(self, K + 1, 0)
            and xe(self, K + 1, 0) < xe(self, K + 1, self.a_l))


@hint(LB, when='entry')
def lb_h_order_j(self, K, j):
    return (implies(j < self.a_l, xe(self, K, 0) <= xe(self, K, j) and xe(self, K, j) < xe(self, K, self.a_l))
            and implies(j > self.n - self.a_r, xe(self, K, self.n - self.a_r) < xe(self, K, j) and xe(self, K, j) < xe(self, K + 1, 0)))


@hint(LB, when='entry')
def lb_h_borders(self, K, j):
    """each border value lies between the two adjacent averages"""
    return between(z0(self, K), ye(self, K - 1), ye(self, K)) and between(z0(self, K + 1), ye(self, K), ye(self, K + 1))


@ensures(LB)
def lb_plateau(self, K, j):
    """C05: the samples a_l .. n - a_r of an interval equal its average - at most a_l + a_r - 1 <= a - 1 samples differ"""
    return implies(self.a_l <= j and j <= self.n - self.a_r, fv(self, K, j) == ye(self, K)) and self.a_l + self.a_r - 1 <= self.a - 1


@ensures(LB)
def lb_left(self, K, j):
    """C05: left transition samples lie between the border value and the average, hence between the two averages"""
    return implies(j < self.a_l, between(fv(self, K, j), z0(self, K), ye(self, K)) and between(fv(self, K, j), ye(self, K - 1), ye(self, K)))


@ensures(LB)
def lb_right(self, K, j):
    return implies(j > self.n - self.a_r, between(fv(self, K, j), ye(self, K), z0(self, K + 1))
                   and between(fv(self, K, j), ye(self, K), ye(self, K + 1)))


LM = 'lemma:rfa.linear_fixed.monotone'
contract(LM, params=dict(self=Obj(LINF), K=Int, j=Int), lemma=True, no_rt=True)


@requires(LM)
def lm_pre(self, K, j):
    return linf_pre(self) and interior(self, K, j)


@hint(LM, when='entry')
def lm_h_order(self, K, j):
    return (xe(self, K, 0) < xe(self, K, self.a_l) and xe(self, K, self.n - self.a_r) < xe(self, K + 1, 0)
            and implies(j + 1 <= self.a_l, xe(self, K, j) < xe(self, K, j + 1))
            and implies(j >= self.n - self.a_r and j + 1 < self.n, xe(self, K, j) < xe(self, K, j + 1))
            and implies(j + 1 == self.n, xe(self, K, j) < xe(self, K + 1, 0)))


@ensures(LM)
def lm_left(self, K, j):
    """C05: from the border value the samples move monotonically to the plateau (each step has the sign of average - border)"""
    return implies(j + 1 <= self.a_l, (fv(self, K, j + 1) - fv(self, K, j)) * (ye(self, K) - z0(self, K)) >= 0)


@ensures(LM)
def lm_right(self, K, j):
    return implies(j >= self.n - self.a_r and j + 1 < self.n,
                   (fv(self, K, j + 1) - fv(self, K, j)) * (z0(self, K + 1) - ye(self, K)) >= 0)


# ---- C07: changes of units and locality: two strategy objects on related data

LEY = 'lemma:rfa.linear_fixed.equivariance_y'
contract(LEY, params=dict(s1=Obj(LINF), s2=Obj(LINF), al=Real, be=Real, K=Int, j=Int), lemma=True, no_rt=True)


def same_setup(s1, s2):
    return (len(s1.x) == len(s2.x) and s1.n == s2.n and s1.a == s2.a and s1.a_l == s2.a_l and s1.a_r == s2.a_r)


def ratio(x, x0, x1):
    return (x - x0) / (x1 - x0)


def same_grid_points(s1, s2, K, j):
    return (xe(s2, K, j) == xe(s1, K, j) and xe(s2, K, 0) == xe(s1, K, 0) and xe(s2, K, s1.a_l) == xe(s1, K, s1.a_l)
            and xe(s2, K, s1.n - s1.a_r) == xe(s1, K, s1.n - s1.a_r) and xe(s2, K - 1, s1.n - s1.a_r) == xe(s1, K - 1, s1.n - s1.a_r)
            and xe(s2, K + 1, 0) == xe(s1, K + 1, 0) and xe(s2, K + 1, s1.a_l) == xe(s1, K + 1, s1.a_l))


@requires(LEY)
def ley_pre(s1, s2, al, be, K, j):
    return (linf_pre(s1) and linf_pre(s2) and same_setup(s1, s2) and interior(s1, K, j)
            and forall(range(len(s1.x)), lambda i: s2.y[i] == al * s1.y[i] + be and s2.x[i] == s1.x[i]))


@hint(LEY, when='entry')
def ley_h_grid(s1, s2, al, be, K, j):
    return (same_grid_points(s1, s2, K, j)
            and ye(s2, K) == al * ye(s1, K) + be and ye(s2, K - 1) == al * ye(s1, K - 1) + be and ye(s2, K + 1) == al * ye(s1, K + 1) + be)


@hint(LEY, when='entry')
def ley_h_borders(s1, s2, al, be, K, j):
    return z0(s2, K) == al * z0(s1, K) + be and z0(s2, K + 1) == al * z0(s1, K + 1) + be


@ensures(LEY)
def ley_commutes(s1, s2, al, be, K, j):
    """C07: y -> al*y + be before recreation = the same map applied to the recreated values (the strategy is an affine map of
    the averages whose weights sum to one)"""
    return fv(s2, K, j) == al * fv(s1, K, j) + be


LEX = 'lemma:rfa.linear_fixed.equivariance_x'
contract(LEX, params=dict(s1=Obj(LINF), s2=Obj(LINF), c=Real, d=Real, K=Int, j=Int), lemma=True, no_rt=True)


@requires(LEX)
def lex_pre(s1, s2, c, d, K, j):
    return (linf_pre(s1) and linf_pre(s2) and same_setup(s1, s2) and interior(s1, K, j) and c > 0
            and forall(range(len(s1.x)), lambda i: s2.y[i] == s1.y[i] and s2.x[i] == c * s1.x[i] + d))


@hint(LEX, when='entry')
def lex_h_grid(s1, s2, c, d, K, j):
    return (xe(s2, K, j) == c * xe(s1, K, j) + d and xe(s2, K, 0) == c * xe(s1, K, 0) + d
            and xe(s2, K, s1.a_l) == c * xe(s1, K, s1.a_l) + d and xe(s2, K, s1.n - s1.a_r) == c * xe(s1, K, s1.n - s1.a_r) + d
            and xe(s2, K - 1, s1.n - s1.a_r) == c * xe(s1, K - 1, s1.n - s1.a_r) + d
            and xe(s2, K + 1, 0) == c * xe(s1, K + 1, 0) + d and xe(s2, K + 1, s1.a_l) == c * xe(s1, K + 1, s1.a_l) + d
            and ye(s2, K) == ye(s1, K) and ye(s2, K - 1) == ye(s1, K - 1) and ye(s2, K + 1) == ye(s1, K + 1))


@hint(LEX, when='entry')
def lex_h_order(s1, s2, c, d, K, j):
    return (xe(s1, K - 1, s1.n - s1.a_r) < xe(s1, K, 0) and xe(s1, K, 0) < xe(s1, K, s1.a_l)
            and xe(s1, K, s1.n - s1.a_r) < xe(s1, K + 1, 0) and xe(s1, K + 1, 0) < xe(s1, K + 1, s1.a_l))


@hint(LEX, when='entry')
def lex_h_ratio_borders(s1, s2, c, d, K, j):
    """ratios of differences of abscissae are not changed by x -> c*x + d"""
    return (ratio(xe(s2, K, 0), xe(s2, K - 1, s1.n - s1.a_r), xe(s2, K, s1.a_l)) == ratio(xe(s1, K, 0), xe(s1, K - 1, s1.n - s1.a_r), xe(s1, K, s1.a_l))
            and ratio(xe(s2, K + 1, 0), xe(s2, K, s1.n - s1.a_r), xe(s2, K + 1, s1.a_l))
            == ratio(xe(s1, K + 1, 0), xe(s1, K, s1.n - s1.a_r), xe(s1, K + 1, s1.a_l)))


@hint(LEX, when='entry')
def lex_h_ratio_left(s1, s2, c, d, K, j):
    return ratio(xe(s2, K, j), xe(s2, K, 0), xe(s2, K, s1.a_l)) == ratio(xe(s1, K, j), xe(s1, K, 0), xe(s1, K, s1.a_l))


@hint(LEX, when='entry')
def lex_h_ratio_right(s1, s2, c, d, K, j):
    return ratio(xe(s2, K, j), xe(s2, K, s1.n - s1.a_r), xe(s2, K + 1, 0)) == ratio(xe(s1, K, j), xe(s1, K, s1.n - s1.a_r), xe(s1, K + 1, 0))


@hint(LEX, when='entry')
def lex_h_borders(s1, s2, c, d, K, j):
    return z0(s2, K) == z0(s1, K) and z0(s2, K + 1) == z0(s1, K + 1)


@ensures(LEX)
def lex_commutes(s1, s2, c, d, K, j):
    """C07: x -> c*x + d (c > 0) before recreation: same values on the mapped grid"""
    return fv(s2, K, j) == fv(s1, K, j) and xe(s2, K, j) == c * xe(s1, K, j) + d


LL = 'lemma:rfa.linear_fixed.locality'
contract(LL, params=dict(s1=Obj(LINF), s2=Obj(LINF), K=Int, j=Int), lemma=True, no_rt=True)


@requires(LL)
def ll_pre(s1, s2, K, j):
    return (linf_pre(s1) and linf_pre(s2) and same_setup(s1, s2) and interior(s1, K, j)
            and forall(range(len(s1.x)), lambda i: s2.x[i] == s1.x[i])
            # the averages of interval K (original index K-1) and of its two neighbours agree; all others are arbitrary
            and forall(range(len(s1.x)), lambda i: s2.y[i] == s1.y[i] if (K - 2 <= i and i <= K) else True)
            and 2 <= K and K <= len(s1.x) - 2)


@hint(LL, when='entry')
def ll_h_grid(s1, s2, K, j):
    return (xe(s2, K, j) == xe(s1, K, j) and xe(s2, K, 0) == xe(s1, K, 0) and xe(s2, K, s1.a_l) == xe(s1, K, s1.a_l)
            and xe(s2, K, s1.n - s1.a_r) == xe(s1, K, s1.n - s1.a_r) and xe(s2, K - 1, s1.n - s1.a_r) == xe(s1, K - 1, s1.n - s1.a_r)
            and xe(s2, K + 1, 0) == xe(s1, K + 1, 0) and xe(s2, K + 1, s1.a_l) == xe(s1, K + 1, s1.a_l)
            and ye(s2, K) == ye(s1, K) and ye(s2, K - 1) == ye(s1, K - 1) and ye(s2, K + 1) == ye(s1, K + 1))


@ensures(LL)
def ll_local(s1, s2, K, j):
    """C07: a recreated value of an interval reads only that interval's and the two adjacent intervals' averages"""
    return z0(s2, K) == z0(s1, K) and z0(s2, K + 1) == z0(s1, K + 1) and fv(s2, K, j) == fv(s1, K, j)



# =============================================================================== bounded stand-ins (run-time monitoring only)
#
# The values of ExpFixedRFA, LinearAdaptiveRFA, ExpAdaptiveRFA and of the spline strategy are NOT proved statically.  The
# clauses below are evaluated by the run-time monitor on generated strategy objects (ties, non-uniform spacing, explicit
# windows, all parameters); they are listed in the evidence as *assumed / bounded* and never counted as discharged.

BOUNDED = 'bounded: run-time monitoring on generated inputs only, not proved'


@ensures(LINF + '.rfa', assumed=BOUNDED)
def linf_rt_c04(self, result):
    return RT.finite(result)


@ensures(LINF + '.rfa', assumed=BOUNDED)
def linf_rt_c05(self, result):
    return RT.shape_ok(self, result, False) and RT.constant_ok(self, result)


@ensures(LINF + '.rfa', assumed=BOUNDED)
def linf_rt_c06(self, result):
    return RT.fixed_border_ok(self, result)


@ensures(LINF + '.rfa', assumed=BOUNDED)
def linf_rt_c07(self, result):
    return RT.equivariant(self, result) and RT.local(self, result, 1) and RT.linear(self, result)


@ensures(EXPF + '.rfa', assumed=BOUNDED)
def expf_rt_c04(self, result):
    return RT.finite(result)


@ensures(EXPF + '.rfa', assumed=BOUNDED)
def expf_rt_c05(self, result):
    return RT.shape_ok(self, result, False) and RT.constant_ok(self, result)


@ensures(EXPF + '.rfa', assumed=BOUNDED)
def expf_rt_c06(self, result):
    return RT.fixed_border_ok(self, result)


@ensures(EXPF + '.rfa', assumed=BOUNDED)
def expf_rt_c07(self, result):
    return RT.equivariant(self, result) and RT.local(self, result, 1) and RT.linear(self, result)


@ensures(LINA + '.rfa', assumed=BOUNDED)
def lina_rt_c04(self, result):
    return RT.finite(result)


@ensures(LINA + '.rfa', assumed=BOUNDED)
def lina_rt_c05(self, result):
    return RT.shape_ok(self, result, True) and RT.constant_ok(self, result)


@ensures(LINA + '.rfa', assumed=BOUNDED)
def lina_rt_c07(self, result):
    return RT.equivariant(self, result) and RT.local(self, result, 2)


@ensures(EXPA + '.rfa', assumed=BOUNDED)
def expa_rt_c04(self, result):
    return RT.finite(result)


@ensures(EXPA + '.rfa', assumed=BOUNDED)
def expa_rt_c05(self, result):
    return RT.shape_ok(self, result, True) and RT.constant_ok(self, result)


@ensures(EXPA + '.rfa', assumed=BOUNDED)
def expa_rt_c07(self, result):
    return RT.equivariant(self, result) and RT.local(self, result, 2)


@ensures(PWC + '.rfa', assumed=BOUNDED)
def pwc_rt_c04(self, result):
    return RT.finite(result)


@ensures(PWC + '.rfa', assumed=BOUNDED)
def pwc_rt_c07(self, result):
    return RT.constant_ok(self, result) and RT.equivariant(self, result) and RT.local(self, result, 0) and RT.linear(self, result)


CUBRFA = CUB + '.rfa'
contract(CUBRFA, params=dict(self=Obj(CUB)), returns=Tuple(Seq(Real), Seq(Real)), rt_only=True)


@requires(CUBRFA)
def cub_pre(self):
    return series_in(self)


@ensures(CUBRFA, assumed=BOUNDED)
def cub_rt_c04(self, result):
    """C04 for the spline strategy (SciPy's CubicSpline is outside the verifier)"""
    return grid_ok(self.x, self.n, result) and RT.finite(result)


@ensures(CUBRFA, assumed=BOUNDED)
def cub_rt_c05(self, result):
    return RT.spline_through_points(self, result) and RT.constant_ok(self, result)


@ensures(CUBRFA, assumed=BOUNDED)
def cub_rt_c07(self, result):
    return RT.equivariant(self, result) and RT.linear(self, result)


# =============================================================================== lemmas over the ExpFixedRFA closed form

def expf_order(self, K):
    """the abscissae interval K reads, in sample order"""
    return (xe(self, K - 1, self.n - self.a_r) < xe(self, K, 0) and xe(self, K, 0) <= xe(self, K, self.b) and xe(self, K, self.b) <= xe(self, K, self.a_l)
            and xe(self, K, 0) < xe(self, K, self.a_l) and xe(self, K, self.a_l) <= xe(self, K, self.n - self.a_r)
            and xe(self, K, self.n - self.a_r) <= xr(self, K, self.n - self.b) and xr(self, K, self.n - self.b) <= xe(self, K + 1, 0)
            and xe(self, K, self.n - self.a_r) < xe(self, K + 1, 0) and xe(self, K + 1, 0) < xe(self, K + 1, self.a_l))


LBE = 'lemma:rfa.exp_fixed.bounds'
contract(LBE, params=dict(self=Obj(EXPF), K=Int, j=Int), lemma=True, no_rt=True)


@requires(LBE)
def lbe_pre(self, K, j):
    return expf_pre(self) and interior(self, K, j)


@hint(LBE, when='entry')
def lbe_h_xr(self, K, j):
    return (xr(self, K, self.n - self.b) == (xe(self, K, self.n - self.b) if self.b >= 1 else xe(self, K + 1, 0)))


@hint(LBE, when='entry')
def lbe_h_order(self, K, j):
    return expf_order(self, K)


@hint(LBE, when='entry')
def lbe_h_order_j(self, K, j):
    return (implies(j < self.b, xe(self, K, 0) <= xe(self, K, j) and xe(self, K, j) < xe(self, K, self.b))
            and implies(self.b <= j and j < self.a_l, xe(self, K, self.b) <= xe(self, K, j) and xe(self, K, j) < xe(self, K, self.a_l))
            and implies(self.n - self.a_r <= j and j < self.n - self.b,
                        xe(self, K, self.n - self.a_r) <= xe(self, K, j) and xe(self, K, j) < xr(self, K, self.n - self.b))
            and implies(self.n - self.b <= j, xr(self, K, self.n - self.b) <= xe(self, K, j) and xe(self, K, j) < xe(self, K + 1, 0)))


@hint(LBE, when='entry')
def lbe_h_borders(self, K, j):
    return between(z0(self, K), ye(self, K - 1), ye(self, K)) and between(z0(self, K + 1), ye(self, K), ye(self, K + 1))


@hint(LBE, when='entry')
def lbe_h_breaks(self, K, j):
    """the two break points lie on the straight lines border value - plateau"""
    return between(zlb(self, K), z0(self, K), ye(self, K)) and between(zrb(self, K), ye(self, K), z0(self, K + 1))


@ensures(LBE)
def lbe_border(self, K, j):
    """C06: the first sample of an interval is the border value (straight line between the plateau ends of the adjacent
    intervals, taken at the border)"""
    return fe(self, K, 0) == z0(self, K)


@ensures(LBE)
def lbe_plateau(self, K, j):
    """C05: samples a_l .. n-a_r (inclusive: the first sample of the right transition is still the average) equal the average,
    so at most a_l + a_r - 1 <= a - 1 samples differ"""
    return (implies(self.a_l <= j and j <= self.n - self.a_r and j < self.n, fe(self, K, j) == ye(self, K))
            and self.a_l + self.a_r - 1 <= self.a - 1)


@ensures(LBE)
def lbe_left_linear(self, K, j):
    return implies(j < self.b, between(fe(self, K, j), z0(self, K), zlb(self, K)))


@ensures(LBE)
def lbe_left_blend(self, K, j):
    return implies(self.b <= j and j < self.a_l, between(fe(self, K, j), zlb(self, K), ye(self, K)))


@ensures(LBE)
def lbe_left(self, K, j):
    """C05: every left transition sample lies between the two adjacent averages"""
    return implies(j < self.a_l, between(fe(self, K, j), ye(self, K - 1), ye(self, K)))


@ensures(LBE)
def lbe_right_blend(self, K, j):
    return implies(self.n - self.a_r <= j and j < self.n - self.b, between(fe(self, K, j), ye(self, K), zrb(self, K)))


@ensures(LBE)
def lbe_right_linear(self, K, j):
    return implies(self.n - self.b <= j, between(fe(self, K, j), zrb(self, K), z0(self, K + 1)))


@ensures(LBE)
def lbe_right(self, K, j):
    return implies(self.n - self.a_r <= j, between(fe(self, K, j), ye(self, K), ye(self, K + 1)))


def same_setup_e(s1, s2):
    return (len(s1.x) == len(s2.x) and s1.n == s2.n and s1.a == s2.a and s1.a_l == s2.a_l and s1.a_r == s2.a_r and s1.b == s2.b
            and s1.exp == s2.exp)


def grid_points_e(s1, s2, K, j, c, d):
    """every abscissa the closed form of interval K reads, in the two objects"""
    return (xe(s2, K, j) == c * xe(s1, K, j) + d and xe(s2, K, 0) == c * xe(s1, K, 0) + d
            and xe(s2, K, s1.a_l) == c * xe(s1, K, s1.a_l) + d and xe(s2, K, s1.n - s1.a_r) == c * xe(s1, K, s1.n - s1.a_r) + d
            and xe(s2, K - 1, s1.n - s1.a_r) == c * xe(s1, K - 1, s1.n - s1.a_r) + d
            and xe(s2, K + 1, 0) == c * xe(s1, K + 1, 0) + d and xe(s2, K + 1, s1.a_l) == c * xe(s1, K + 1, s1.a_l) + d
            and xe(s2, K, s1.b) == c * xe(s1, K, s1.b) + d and xr(s2, K, s1.n - s1.b) == c * xr(s1, K, s1.n - s1.b) + d)


# ---- C07: change of units of the values for ExpFixedRFA.  The two blends are affine in (y0, y1) with weights that sum to one
# only because t + u == 1 for t = (x - x0)/(x1 - x0), u = (x1 - x)/(x1 - x0): that fact is a proof step of its own (it needs
# x0 != x1, i.e. the ordering of the abscissae), after which every piece is a polynomial identity in which the power terms are
# atoms (the abscissae, hence the bases and exponents of the powers, are the same in both objects).

LEYE = 'lemma:rfa.exp_fixed.equivariance_y'
contract(LEYE, params=dict(s1=Obj(EXPF), s2=Obj(EXPF), al=Real, be=Real, K=Int, j=Int), lemma=True, no_rt=True)


def tt(x, x0, x1):
    return (x - x0) / (x1 - x0)


def uu(x, x0, x1):
    return (x1 - x) / (x1 - x0)


@requires(LEYE)
def leye_pre(s1, s2, al, be, K, j):
    return (expf_pre(s1) and expf_pre(s2) and same_setup_e(s1, s2) and interior(s1, K, j)
            and forall(range(len(s1.x)), lambda i: s2.y[i] == al * s1.y[i] + be and s2.x[i] == s1.x[i]))


@hint(LEYE, when='entry')
def leye_h_xr(s1, s2, al, be, K, j):
    return (xr(s1, K, s1.n - s1.b) == (xe(s1, K, s1.n - s1.b) if s1.b >= 1 else xe(s1, K + 1, 0))
            and xr(s2, K, s1.n - s1.b) == (xe(s2, K, s1.n - s1.b) if s1.b >= 1 else xe(s2, K + 1, 0)))


@hint(LEYE, when='entry')
def leye_h_order(s1, s2, al, be, K, j):
    return expf_order(s1, K)


@hint(LEYE, when='entry')
def leye_h_order_j(s1, s2, al, be, K, j):
    return lbe_h_order_j(s1, K, j)


@hint(LEYE, when='entry')
def leye_h_grid(s1, s2, al, be, K, j):
    return (grid_points_e(s1, s2, K, j, 1, 0)
            and ye(s2, K) == al * ye(s1, K) + be and ye(s2, K - 1) == al * ye(s1, K - 1) + be and ye(s2, K + 1) == al * ye(s1, K + 1) + be)


@hint(LEYE, when='entry')
def leye_h_borders(s1, s2, al, be, K, j):
    return z0(s2, K) == al * z0(s1, K) + be and z0(s2, K + 1) == al * z0(s1, K + 1) + be


@hint(LEYE, when='entry')
def leye_h_breaks(s1, s2, al, be, K, j):
    return zlb(s2, K) == al * zlb(s1, K) + be and zrb(s2, K) == al * zrb(s1, K) + be


@hint(LEYE, when='entry')
def leye_h_unit(s1, s2, al, be, K, j):
    """the two weights of a blend sum to one (needs distinct end points: j inside the blend piece)"""
    return (implies(s1.b <= j and j < s1.a_l,
                    uu(xe(s1, K, j), xe(s1, K, s1.b), xe(s1, K, s1.a_l)) == 1 - tt(xe(s1, K, j), xe(s1, K, s1.b), xe(s1, K, s1.a_l)))
            and implies(s1.n - s1.a_r <= j and j < s1.n - s1.b,
                        uu(xe(s1, K, j), xe(s1, K, s1.n - s1.a_r), xr(s1, K, s1.n - s1.b))
                        == 1 - tt(xe(s1, K, j), xe(s1, K, s1.n - s1.a_r), xr(s1, K, s1.n - s1.b))))


@hint(LEYE, when='entry')
def leye_h_linear_pieces(s1, s2, al, be, K, j):
    return fe1(s2, K, j) == al * fe1(s1, K, j) + be and fe5(s2, K, j) == al * fe5(s1, K, j) + be


@hint(LEYE, when='entry')
def leye_h_blend_left(s1, s2, al, be, K, j):
    return implies(s1.b <= j and j < s1.a_l, fe2(s2, K, j) == al * fe2(s1, K, j) + be)


@hint(LEYE, when='entry')
def leye_h_blend_right(s1, s2, al, be, K, j):
    return implies(s1.n - s1.a_r <= j and j < s1.n - s1.b, fe4(s2, K, j) == al * fe4(s1, K, j) + be)


@ensures(LEYE)
def leye_commutes(s1, s2, al, be, K, j):
    """C07: y -> al*y + be before recreation = the same map applied to the recreated values, for every real al, be and every
    exponent (ExpFixedRFA is an affine map of the averages whose weights sum to one)"""
    return fe(s2, K, j) == al * fe(s1, K, j) + be


LLE = 'lemma:rfa.exp_fixed.locality'
contract(LLE, params=dict(s1=Obj(EXPF), s2=Obj(EXPF), K=Int, j=Int), lemma=True, no_rt=True)


@requires(LLE)
def lle_pre(s1, s2, K, j):
    return (expf_pre(s1) and expf_pre(s2) and same_setup_e(s1, s2) and interior(s1, K, j)
            and forall(range(len(s1.x)), lambda i: s2.x[i] == s1.x[i])
            and forall(range(len(s1.x)), lambda i: s2.y[i] == s1.y[i] if (K - 2 <= i and i <= K) else True)
            and 2 <= K and K <= len(s1.x) - 2)


@hint(LLE, when='entry')
def lle_h_xr(s1, s2, K, j):
    return (xr(s1, K, s1.n - s1.b) == (xe(s1, K, s1.n - s1.b) if s1.b >= 1 else xe(s1, K + 1, 0))
            and xr(s2, K, s1.n - s1.b) == (xe(s2, K, s1.n - s1.b) if s1.b >= 1 else xe(s2, K + 1, 0)))


@hint(LLE, when='entry')
def lle_h_grid(s1, s2, K, j):
    return (grid_points_e(s1, s2, K, j, 1, 0) and ye(s2, K) == ye(s1, K) and ye(s2, K - 1) == ye(s1, K - 1) and ye(s2, K + 1) == ye(s1, K + 1))


@hint(LLE, when='entry')
def lle_h_borders(s1, s2, K, j):
    return (z0(s2, K) == z0(s1, K) and z0(s2, K + 1) == z0(s1, K + 1) and zlb(s2, K) == zlb(s1, K) and zrb(s2, K) == zrb(s1, K))


@hint(LLE, when='entry')
def lle_h_pieces(s1, s2, K, j):
    return (fe1(s2, K, j) == fe1(s1, K, j) and fe2(s2, K, j) == fe2(s1, K, j) and fe4(s2, K, j) == fe4(s1, K, j) and fe5(s2, K, j) == fe5(s1, K, j))


@ensures(LLE)
def lle_local(s1, s2, K, j):
    """C07: a recreated value of an interval reads only that interval's and the two adjacent intervals' averages"""
    return fe(s2, K, j) == fe(s1, K, j)


# =============================================================================== lemmas over the LinearAdaptiveRFA closed form

def lina_wf(self):
    return series_in(self) and self.a >= 2 and self.a <= self.n and self.adaptive_smooth > 0


LBA = 'lemma:rfa.linear_adaptive.bounds'
contract(LBA, params=dict(self=Obj(LINA), K=Int, j=Int), lemma=True, no_rt=True)


@requires(LBA)
def lba_pre(self, K, j):
    return lina_wf(self) and interior(self, K, j)


@hint(LBA, when='entry')
def lba_h_windows(self, K, j):
    """window sizes are within 0..a (trunc of a value clipped to [1, a], a div 2, 0 or 1)"""
    return (0 <= wl(self, K) and wl(self, K) <= self.a and 0 <= wr(self, K) and wr(self, K) <= self.a
            and 0 <= wr(self, K - 1) and wr(self, K - 1) <= self.a and 0 <= wl(self, K + 1) and wl(self, K + 1) <= self.a)


@hint(LBA, when='entry')
def lba_h_ties(self, K, j):
    """a side without a window is a side without a jump (or the other side has none either)"""
    return (implies(wr(self, K - 1) == 0 and wl(self, K) == 0 and K >= 2, ye(self, K - 1) == ye(self, K))
            and implies(wr(self, K) == 0 and wl(self, K + 1) == 0 and K <= len(self.x) - 2, ye(self, K) == ye(self, K + 1)))


@hint(LBA, when='entry')
def lba_h_order(self, K, j):
    return (implies(wr(self, K - 1) >= 1, xl(self, K, wr(self, K - 1)) < xe(self, K, 0))
            and implies(wl(self, K) >= 1, xe(self, K, 0) < xr(self, K, wl(self, K)))
            and implies(wr(self, K) >= 1, xr(self, K, self.n - wr(self, K)) < xe(self, K + 1, 0))
            and implies(wl(self, K + 1) >= 1, xe(self, K + 1, 0) < xr(self, K + 1, wl(self, K + 1)))
            and xl(self, K, wr(self, K - 1)) <= xe(self, K, 0) and xe(self, K, 0) <= xr(self, K, wl(self, K))
            and xr(self, K, self.n - wr(self, K)) <= xe(self, K + 1, 0) and xe(self, K + 1, 0) <= xr(self, K + 1, wl(self, K + 1)))


@hint(LBA, when='entry')
def lba_h_order_j(self, K, j):
    return (implies(j < wl(self, K), xe(self, K, 0) <= xe(self, K, j) and xe(self, K, j) < xr(self, K, wl(self, K)))
            and implies(j > self.n - wr(self, K), xr(self, K, self.n - wr(self, K)) < xr(self, K, j) and xr(self, K, j) <= xe(self, K + 1, 0)))


@hint(LBA, when='entry')
def lba_h_borders(self, K, j):
    return between(z0a(self, K), ye(self, K - 1), ye(self, K)) and between(z0a(self, K + 1), ye(self, K), ye(self, K + 1))


@ensures(LBA)
def lba_plateau(self, K, j):
    """C05: between the two windows the samples equal the average"""
    return implies(wl(self, K) <= j and j <= self.n - wr(self, K) and j >= 1, fa(self, K, j) == ye(self, K))


@ensures(LBA)
def lba_first(self, K, j):
    return between(ba(self, K), ye(self, K - 1), ye(self, K))


@ensures(LBA)
def lba_left(self, K, j):
    """C05: left transition samples lie between the two adjacent averages"""
    return implies(j < wl(self, K), between(fa(self, K, j), ye(self, K - 1), ye(self, K)))


@ensures(LBA)
def lba_right(self, K, j):
    return implies(j > self.n - wr(self, K), between(fa(self, K, j), ye(self, K), ye(self, K + 1)))


def same_setup_a(s1, s2):
    return (len(s1.x) == len(s2.x) and s1.n == s2.n and s1.a == s2.a and s1.adaptive_smooth == s2.adaptive_smooth)


LLA = 'lemma:rfa.linear_adaptive.locality'
contract(LLA, params=dict(s1=Obj(LINA), s2=Obj(LINA), K=Int, j=Int), lemma=True, no_rt=True)


@requires(LLA)
def lla_pre(s1, s2, K, j):
    return (lina_wf(s1) and lina_wf(s2) and same_setup_a(s1, s2) and interior(s1, K, j)
            and forall(range(len(s1.x)), lambda i: s2.x[i] == s1.x[i])
            # the averages of the interval (original index K-1) and of TWO neighbours on each side agree; all others are arbitrary
            and forall(range(len(s1.x)), lambda i: s2.y[i] == s1.y[i] if (K - 3 <= i and i <= K + 1) else True)
            and 3 <= K and K <= len(s1.x) - 3)


@hint(LLA, when='entry')
def lla_h_averages(s1, s2, K, j):
    return (ye(s2, K - 2) == ye(s1, K - 2) and ye(s2, K - 1) == ye(s1, K - 1) and ye(s2, K) == ye(s1, K) and ye(s2, K + 1) == ye(s1, K + 1)
            and ye(s2, K + 2) == ye(s1, K + 2))


@hint(LLA, when='entry')
def lla_h_windows(s1, s2, K, j):
    """the adaptive windows of the interval and of the two borders read only these five averages"""
    return (wl(s2, K) == wl(s1, K) and wr(s2, K) == wr(s1, K) and wr(s2, K - 1) == wr(s1, K - 1) and wl(s2, K + 1) == wl(s1, K + 1))


@hint(LLA, when='entry')
def lla_h_grid(s1, s2, K, j):
    return (xe(s2, K, j) == xe(s1, K, j) and xe(s2, K, 0) == xe(s1, K, 0) and xe(s2, K + 1, 0) == xe(s1, K + 1, 0)
            and xr(s2, K, j) == xr(s1, K, j) and xr(s2, K, wl(s1, K)) == xr(s1, K, wl(s1, K))
            and xr(s2, K, s1.n - wr(s1, K)) == xr(s1, K, s1.n - wr(s1, K)) and xl(s2, K, wr(s1, K - 1)) == xl(s1, K, wr(s1, K - 1))
            and xl(s2, K + 1, wr(s1, K)) == xl(s1, K + 1, wr(s1, K)) and xr(s2, K + 1, wl(s1, K + 1)) == xr(s1, K + 1, wl(s1, K + 1)))


@hint(LLA, when='entry')
def lla_h_borders(s1, s2, K, j):
    return z0a(s2, K) == z0a(s1, K) and z0a(s2, K + 1) == z0a(s1, K + 1) and ba(s2, K) == ba(s1, K)


@hint(LLA, when='entry')
def lla_h_pieces(s1, s2, K, j):
    return fal(s2, K, j) == fal(s1, K, j) and far(s2, K, j) == far(s1, K, j)


@ensures(LLA)
def lla_local(s1, s2, K, j):
    """C07: a recreated value of an interval reads only that interval's average and two neighbours on each side"""
    return fa(s2, K, j) == fa(s1, K, j)


LEA = 'lemma:rfa.linear_adaptive.equivariance_y'
contract(LEA, params=dict(s1=Obj(LINA), s2=Obj(LINA), al=Real, be=Real, K=Int, j=Int), lemma=True, no_rt=True)


@requires(LEA)
def lea_pre(s1, s2, al, be, K, j):
    return (lina_wf(s1) and lina_wf(s2) and same_setup_a(s1, s2) and interior(s1, K, j) and al != 0 and 2 <= K and K <= len(s1.x) - 2
            and forall(range(len(s1.x)), lambda i: s2.y[i] == al * s1.y[i] + be and s2.x[i] == s1.x[i]))


@hint(LEA, when='entry')
def lea_h_averages(s1, s2, al, be, K, j):
    return (ye(s2, K - 2) == al * ye(s1, K - 2) + be and ye(s2, K - 1) == al * ye(s1, K - 1) + be and ye(s2, K) == al * ye(s1, K) + be
            and ye(s2, K + 1) == al * ye(s1, K + 1) + be and ye(s2, K + 2) == al * ye(s1, K + 2) + be)


def abs_al(al):
    return al if al >= 0 else -al


@hint(LEA, when='entry')
def lea_h_jumps(s1, s2, al, be, K, j):
    """absolute jumps scale by |al|"""
    return (jr(s2, K) == abs_al(al) * jr(s1, K) and jl(s2, K) == abs_al(al) * jl(s1, K)
            and jr(s2, K - 1) == abs_al(al) * jr(s1, K - 1) and jl(s2, K - 1) == abs_al(al) * jl(s1, K - 1)
            and jr(s2, K + 1) == abs_al(al) * jr(s1, K + 1) and jl(s2, K + 1) == abs_al(al) * jl(s1, K + 1))


@hint(LEA, when='entry')
def lea_h_ratios(s1, s2, al, be, K, j):
    """so the ratios of jumps - all the windows depend on - are unchanged"""
    return (implies(jl(s1, K) != 0, jr(s2, K) / jl(s2, K) == jr(s1, K) / jl(s1, K))
            and implies(jl(s1, K - 1) != 0, jr(s2, K - 1) / jl(s2, K - 1) == jr(s1, K - 1) / jl(s1, K - 1))
            and implies(jl(s1, K + 1) != 0, jr(s2, K + 1) / jl(s2, K + 1) == jr(s1, K + 1) / jl(s1, K + 1)))


@hint(LEA, when='entry')
def lea_h_windows(s1, s2, al, be, K, j):
    return (wl(s2, K) == wl(s1, K) and wr(s2, K) == wr(s1, K) and wr(s2, K - 1) == wr(s1, K - 1) and wl(s2, K + 1) == wl(s1, K + 1))


@hint(LEA, when='entry')
def lea_h_grid(s1, s2, al, be, K, j):
    return (xe(s2, K, j) == xe(s1, K, j) and xe(s2, K, 0) == xe(s1, K, 0) and xe(s2, K + 1, 0) == xe(s1, K + 1, 0)
            and xr(s2, K, j) == xr(s1, K, j) and xr(s2, K, wl(s1, K)) == xr(s1, K, wl(s1, K))
            and xr(s2, K, s1.n - wr(s1, K)) == xr(s1, K, s1.n - wr(s1, K)) and xl(s2, K, wr(s1, K - 1)) == xl(s1, K, wr(s1, K - 1))
            and xl(s2, K + 1, wr(s1, K)) == xl(s1, K + 1, wr(s1, K)) and xr(s2, K + 1, wl(s1, K + 1)) == xr(s1, K + 1, wl(s1, K + 1)))


@hint(LEA, when='entry')
def lea_h_borders(s1, s2, al, be, K, j):
    return z0a(s2, K) == al * z0a(s1, K) + be and z0a(s2, K + 1) == al * z0a(s1, K + 1) + be and ba(s2, K) == al * ba(s1, K) + be


@hint(LEA, when='entry')
def lea_h_pieces(s1, s2, al, be, K, j):
    return fal(s2, K, j) == al * fal(s1, K, j) + be and far(s2, K, j) == al * far(s1, K, j) + be


@ensures(LEA)
def lea_commutes(s1, s2, al, be, K, j):
    """C07: y -> al*y + be (al != 0) commutes with LinearAdaptiveRFA: the windows depend on ratios of absolute jumps only"""
    return fa(s2, K, j) == al * fa(s1, K, j) + be


# =============================================================================== ExpAdaptiveRFA.rfa: values (C05 - C07)
#
# Same pieces as ExpFixedRFA, with the adaptive windows wl(K) / wr(K) (specification functions above) and the linear shares
# bl(K) = trunc(beta * wl(K)), br(K) = trunc(beta * wr(K)).

@opaque
def bl(self, K):
    return trunc(self.beta * wl(self, K))


@opaque
def br(self, K):
    return trunc(self.beta * wr(self, K))


@opaque
def zlba(self, K):
    return (z0a(self, K) if bl(self, K) == 0 else
            lf(xr(self, K, bl(self, K)), xe(self, K, 0), z0a(self, K), xr(self, K, wl(self, K)), ye(self, K)))


@opaque
def zrba(self, K):
    return (z0a(self, K + 1) if br(self, K) == 0 else
            lf(xr(self, K, self.n - br(self, K)), xr(self, K, self.n - wr(self, K)), ye(self, K), xe(self, K + 1, 0), z0a(self, K + 1)))


@opaque
def fa1(self, K, j):
    return lf(xe(self, K, j), xe(self, K, 0), z0a(self, K), xr(self, K, bl(self, K)), zlba(self, K))


@opaque
def fa2(self, K, j):
    return lexy(xe(self, K, j), xr(self, K, bl(self, K)), zlba(self, K), xr(self, K, wl(self, K)), ye(self, K), self.exp)


@opaque
def fa4(self, K, j):
    return elin(xe(self, K, j), xr(self, K, self.n - wr(self, K)), ye(self, K), xr(self, K, self.n - br(self, K)), zrba(self, K), self.exp)


@opaque
def fa5(self, K, j):
    return lf(xe(self, K, j), xr(self, K, self.n - br(self, K)), zrba(self, K), xe(self, K + 1, 0), z0a(self, K + 1))


@opaque
def fea(self, K, j):
    """sample j of the extended interval K as ExpAdaptiveRFA documents it"""
    return (fa1(self, K, j) if j < bl(self, K) else
            (fa2(self, K, j) if j < wl(self, K) else
             (ye(self, K) if j < self.n - wr(self, K) else
              (fa4(self, K, j) if j < self.n - br(self, K) else fa5(self, K, j)))))


ghost(EXPA + '.rfa', before='y_0 = y[k, 0]', name='zk', expr='z.a.copy()')

BEFORE_GATP_E = 'a_ls, a_rs, gammas = LinearAdaptiveRFA.get_adaptive_transition_points'


@hint(EXPA + '.rfa', before=BEFORE_GATP_E)
def expa_h_grid_mid(self, x, y):
    return ext_mid(self, x.a, y.a)


@hint(EXPA + '.rfa', before=BEFORE_GATP_E)
def expa_h_grid_left0(self, osx, x):
    return osx[0] == self.x[0] and osx[self.n] == self.x[1] and 2 * osx[0] - osx[self.n] == 2 * self.x[0] - self.x[1]


@hint(EXPA + '.rfa', before=BEFORE_GATP_E)
def expa_h_grid_left(self, x, y):
    return ext_left(self, x.a, y.a)


@hint(EXPA + '.rfa', before=BEFORE_GATP_E)
def expa_h_grid_right(self, x, y):
    return ext_right(self, x.a, y.a)


@hint(EXPA + '.rfa', before=BEFORE_GATP_E)
def expa_h_grid(self, x, y, z):
    return ext_grid(self, x.a, y.a) and forall(range(ext_len(self)), lambda t: z.a[t] == y.a[t])


def windows_are_e(self, a_ls, a_rs, b_ls, b_rs):
    return (windows_are(self, a_ls, a_rs) and len(b_ls) == len(self.x) + 1 and len(b_rs) == len(self.x) + 1
            and forall(range(len(self.x) + 1), lambda K: b_ls[K] == bl(self, K) and b_rs[K] == br(self, K)
                       and 0 <= bl(self, K) and bl(self, K) <= wl(self, K) and 0 <= br(self, K) and br(self, K) <= wr(self, K)))


@hint(EXPA + '.rfa', before=BEFORE_LOOP)
def expa_h_jumps(self, y):
    return forall(range(len(self.x) + 1), lambda K: y.a[K * self.n] == ye(self, K))


@hint(EXPA + '.rfa', before=BEFORE_LOOP)
def expa_h_windows_mid(self, y, a_ls, a_rs):
    return forall(range(1, len(self.x)), lambda K: a_ls[K] == wl(self, K) and a_rs[K] == wr(self, K))


@hint(EXPA + '.rfa', before=BEFORE_LOOP)
def expa_h_windows_ends(self, y, a_ls, a_rs):
    return (a_ls[0] == wl(self, 0) and a_rs[0] == wr(self, 0) and a_ls[len(self.x)] == wl(self, len(self.x))
            and a_rs[len(self.x)] == wr(self, len(self.x)))


@hint(EXPA + '.rfa', before=BEFORE_LOOP)
def expa_h_windows_are(self, a_ls, a_rs):
    return windows_are(self, a_ls, a_rs)


@hint(EXPA + '.rfa', before=BEFORE_LOOP)
def expa_h_shares(self, a_ls, a_rs, b_ls, b_rs):
    return forall(range(len(self.x) + 1), lambda K: b_ls[K] == bl(self, K) and b_rs[K] == br(self, K))


@hint(EXPA + '.rfa', before=BEFORE_LOOP)
def expa_h_windows_are_e(self, a_ls, a_rs, b_ls, b_rs):
    return windows_are_e(self, a_ls, a_rs, b_ls, b_rs)


@invariant(EXPA + '.rfa', loop=1)
def expa_inv1_values(self, x, y, z, a_ls, a_rs, b_ls, b_rs, k):
    return (ext_grid(self, x.a, y.a) and windows_are_e(self, a_ls, a_rs, b_ls, b_rs)
            and forall(range(1, k), lambda K: forall(range(self.n), lambda j: z.a[K * self.n + j] == fea(self, K, j)))
            and untouched_from(self, z.a, y.a, k * self.n))


BEFORE_L2_E = 'for i in range(0, b_ls[k])'


@hint(EXPA + '.rfa', before=BEFORE_L2_E)
def expa_h_windows_k(self, a_ls, a_rs, b_ls, b_rs, k):
    return (a_rs[k - 1] == wr(self, k - 1) and a_ls[k] == wl(self, k) and a_rs[k] == wr(self, k) and a_ls[k + 1] == wl(self, k + 1)
            and b_ls[k] == bl(self, k) and b_rs[k] == br(self, k)
            and 0 <= bl(self, k) and bl(self, k) <= wl(self, k) and wl(self, k) <= self.a
            and 0 <= br(self, k) and br(self, k) <= wr(self, k) and wr(self, k) <= self.a)


@hint(EXPA + '.rfa', before=BEFORE_L2_E)
def expa_h_locals(self, beta, exp, n):
    return beta == self.beta and exp == self.exp and n == self.n


@hint(EXPA + '.rfa', before=BEFORE_L2_E)
def expa_h_points(self, x, y, k):
    return (x.a[k * self.n] == xe(self, k, 0) and x.a[k * self.n - wr(self, k - 1)] == xl(self, k, wr(self, k - 1))
            and x.a[k * self.n + wl(self, k)] == xr(self, k, wl(self, k)) and x.a[k * self.n + self.n - wr(self, k)] == xr(self, k, self.n - wr(self, k))
            and x.a[(k + 1) * self.n] == xe(self, k + 1, 0) and x.a[(k + 1) * self.n + wl(self, k + 1)] == xr(self, k + 1, wl(self, k + 1))
            and x.a[k * self.n + bl(self, k)] == xr(self, k, bl(self, k)) and x.a[k * self.n + self.n - br(self, k)] == xr(self, k, self.n - br(self, k))
            and y.a[(k - 1) * self.n] == ye(self, k - 1) and y.a[k * self.n] == ye(self, k) and y.a[(k + 1) * self.n] == ye(self, k + 1))


@hint(EXPA + '.rfa', before=BEFORE_L2_E)
def expa_h_z0_cases(self, x, y, a_ls, a_rs, k, z_0):
    return (implies(a_rs[k - 1] == 0 and a_ls[k] == 0, z_0 == y.a[(k - 1) * self.n])
            and implies(not (a_rs[k - 1] == 0 and a_ls[k] == 0),
                        z_0 == lf(x.a[k * self.n], x.a[k * self.n - a_rs[k - 1]], y.a[(k - 1) * self.n], x.a[k * self.n + a_ls[k]], y.a[k * self.n])))


@hint(EXPA + '.rfa', before=BEFORE_L2_E)
def expa_h_z1_cases(self, x, y, a_ls, a_rs, k, y_0, z_1):
    return implies(not (a_rs[k] == 0 and a_ls[k + 1] == 0),
                   z_1 == lf(x.a[(k + 1) * self.n], x.a[k * self.n + self.n - a_rs[k]], y_0, x.a[(k + 1) * self.n + a_ls[k + 1]], y.a[(k + 1) * self.n]))


@hint(EXPA + '.rfa', before=BEFORE_L2_E)
def expa_h_zbl_cases(self, x, y, a_ls, b_ls, k, z_0, z_0_bl):
    return (implies(b_ls[k] == 0, z_0_bl == z_0)
            and implies(b_ls[k] != 0, z_0_bl == lf(x.a[k * self.n + b_ls[k]], x.a[k * self.n], z_0, x.a[k * self.n + a_ls[k]], y.a[k * self.n])))


@hint(EXPA + '.rfa', before=BEFORE_L2_E)
def expa_h_zbr_cases(self, x, y, a_rs, b_rs, k, z_1, z_0_br):
    return (implies(b_rs[k] == 0, z_0_br == z_1)
            and implies(b_rs[k] != 0, z_0_br == lf(x.a[k * self.n + self.n - b_rs[k]], x.a[k * self.n + self.n - a_rs[k]], y.a[k * self.n],
                                                   x.a[(k + 1) * self.n], z_1)))


@hint(EXPA + '.rfa', before=BEFORE_L2_E)
def expa_h_borders(self, k, y_0, z_0):
    return y_0 == ye(self, k) and z_0 == z0a(self, k)


@hint(EXPA + '.rfa', before=BEFORE_L2_E)
def expa_h_xl_xr(self, k):
    return implies(wr(self, k) >= 1, xl(self, k + 1, wr(self, k)) == xr(self, k, self.n - wr(self, k)))


@hint(EXPA + '.rfa', before=BEFORE_L2_E)
def expa_h_border_next(self, k, z_1):
    return implies(wr(self, k) >= 1, z_1 == z0a(self, k + 1))


@hint(EXPA + '.rfa', before=BEFORE_L2_E)
def expa_h_break_l0(self, k, z_0_bl):
    return implies(bl(self, k) == 0, z_0_bl == z0a(self, k) and zlba(self, k) == z0a(self, k))


@hint(EXPA + '.rfa', before=BEFORE_L2_E)
def expa_h_break_r0(self, k, z_0_br):
    return implies(wr(self, k) >= 1 and br(self, k) == 0, z_0_br == z0a(self, k + 1) and zrba(self, k) == z0a(self, k + 1))


@hint(EXPA + '.rfa', before=BEFORE_L2_E)
def expa_h_breaks(self, k, z_0_bl, z_0_br):
    return z_0_bl == zlba(self, k) and implies(wr(self, k) >= 1, z_0_br == zrba(self, k))


def seg1a(self, za, k, hi):
    return forall(range(hi), lambda j: za[k * self.n + j] == fa1(self, k, j))


def seg2a(self, za, k, hi):
    return forall(range(bl(self, k), hi), lambda j: za[k * self.n + j] == fa2(self, k, j))


def seg4a(self, za, k, hi):
    return forall(range(self.n - wr(self, k), hi), lambda j: za[k * self.n + j] == fa4(self, k, j))


def seg5a(self, za, k, hi):
    return forall(range(self.n - br(self, k), hi), lambda j: za[k * self.n + j] == fa5(self, k, j))


def plateau_untouched_a(self, za, ya, k, i):
    return forall(range(ext_len(self)), lambda t: za[t] == ya[t]
                  if (t >= k * self.n + wl(self, k) and (t < k * self.n + self.n - wr(self, k) or t >= k * self.n + i)) else True)


@invariant(EXPA + '.rfa', loop=2)
def expa_inv2_values(self, x, y, z, zk, a_ls, a_rs, b_ls, b_rs, k, i):
    return (windows_are_e(self, a_ls, a_rs, b_ls, b_rs) and frame_before(self, z.a, zk, k) and seg1a(self, z.a, k, i)
            and untouched_from(self, z.a, y.a, k * self.n + i))


@hint(EXPA + '.rfa', loop=2, when='head')
def expa_h2_point(self, x, b_ls, k, i):
    return (b_ls[k] == bl(self, k) and implies(i < bl(self, k), x.a[k * self.n + i] == xe(self, k, i))
            and x.a[k * self.n + b_ls[k]] == xr(self, k, bl(self, k)) and x.a[k * self.n] == xe(self, k, 0))


@hint(EXPA + '.rfa', loop=2, when='end')
def expa_h2_stored(self, z, k, i):
    return z.a[k * self.n + (i - 1)] == fa1(self, k, i - 1)


@invariant(EXPA + '.rfa', loop=3)
def expa_inv3_values(self, x, y, z, zk, a_ls, a_rs, b_ls, b_rs, k, i):
    return (windows_are_e(self, a_ls, a_rs, b_ls, b_rs) and frame_before(self, z.a, zk, k) and seg1a(self, z.a, k, bl(self, k))
            and seg2a(self, z.a, k, i) and untouched_from(self, z.a, y.a, k * self.n + i))


@hint(EXPA + '.rfa', loop=3, when='head')
def expa_h3_point(self, x, a_ls, b_ls, k, i):
    return (a_ls[k] == wl(self, k) and b_ls[k] == bl(self, k) and implies(i < wl(self, k), x.a[k * self.n + i] == xe(self, k, i))
            and x.a[k * self.n + b_ls[k]] == xr(self, k, bl(self, k)) and x.a[k * self.n + a_ls[k]] == xr(self, k, wl(self, k)))


@hint(EXPA + '.rfa', loop=3, when='end')
def expa_h3_stored(self, z, k, i):
    return z.a[k * self.n + (i - 1)] == fa2(self, k, i - 1)


@invariant(EXPA + '.rfa', loop=4)
def expa_inv4_values(self, x, y, z, zk, a_ls, a_rs, b_ls, b_rs, k, i):
    return (windows_are_e(self, a_ls, a_rs, b_ls, b_rs) and frame_before(self, z.a, zk, k) and seg1a(self, z.a, k, bl(self, k))
            and seg2a(self, z.a, k, wl(self, k)) and seg4a(self, z.a, k, i) and plateau_untouched_a(self, z.a, y.a, k, i))


@hint(EXPA + '.rfa', loop=4, when='head')
def expa_h4_point(self, x, a_rs, b_rs, k, i):
    return (a_rs[k] == wr(self, k) and b_rs[k] == br(self, k) and implies(i < self.n, x.a[k * self.n + i] == xe(self, k, i))
            and x.a[k * self.n + self.n - a_rs[k]] == xr(self, k, self.n - wr(self, k))
            and x.a[k * self.n + self.n - b_rs[k]] == xr(self, k, self.n - br(self, k)))


@hint(EXPA + '.rfa', loop=4, when='end')
def expa_h4_stored(self, z, k, i):
    return z.a[k * self.n + (i - 1)] == fa4(self, k, i - 1)


@invariant(EXPA + '.rfa', loop=5)
def expa_inv5_values(self, x, y, z, zk, a_ls, a_rs, b_ls, b_rs, k, i):
    return (windows_are_e(self, a_ls, a_rs, b_ls, b_rs) and frame_before(self, z.a, zk, k) and seg1a(self, z.a, k, bl(self, k))
            and seg2a(self, z.a, k, wl(self, k)) and seg4a(self, z.a, k, self.n - br(self, k)) and seg5a(self, z.a, k, i)
            and plateau_untouched_a(self, z.a, y.a, k, i))


@hint(EXPA + '.rfa', loop=5, when='head')
def expa_h5_point(self, x, b_rs, k, i):
    return (b_rs[k] == br(self, k) and implies(i < self.n, x.a[k * self.n + i] == xe(self, k, i))
            and x.a[k * self.n + self.n - b_rs[k]] == xr(self, k, self.n - br(self, k)) and x.a[k * self.n + self.n] == xe(self, k + 1, 0))


@hint(EXPA + '.rfa', loop=5, when='end')
def expa_h5_stored(self, z, k, i):
    return z.a[k * self.n + (i - 1)] == fa5(self, k, i - 1)


@hint(EXPA + '.rfa', loop=1, when='end')
def expa_h1_blocks(self, k):
    return forall(range(1, k - 1), lambda K: K * self.n + self.n <= (k - 1) * self.n)


@hint(EXPA + '.rfa', loop=1, when='end')
def expa_h1_frame(self, z, zk, k):
    return forall(range(1, k - 1), lambda K: forall(range(self.n), lambda j: z.a[K * self.n + j] == zk[K * self.n + j]))


@hint(EXPA + '.rfa', loop=1, when='end')
def expa_h1_current0(self, z, k):
    return forall(range(self.n), lambda j: z.a[(k - 1) * self.n + j] == fea(self, k - 1, j))


@hint(EXPA + '.rfa', loop=1, when='end')
def expa_h1_current(self, z, k):
    return forall(range(k - 1, k), lambda K: forall(range(self.n), lambda j: z.a[K * self.n + j] == fea(self, K, j)))


@ensures(EXPA + '.rfa')
def expa_values(self, result):
    """C06: every recreated sample equals the documented closed form with the adaptive windows; the last sample is the last
    average"""
    return (forall(range(len(self.x) - 1), lambda q: forall(range(self.n), lambda j: eq(result[1][q * self.n + j], fea(self, q + 1, j))))
            and eq(result[1][(len(self.x) - 1) * self.n], ye(self, len(self.x))))


# =============================================================================== lemmas over the ExpAdaptiveRFA closed form

def expa_wf(self):
    return (series_in(self) and self.a >= 2 and self.a <= self.n and self.adaptive_smooth > 0 and 0 <= self.beta and self.beta <= 1
            and self.exp > 0)


LBX = 'lemma:rfa.exp_adaptive.bounds'
contract(LBX, params=dict(self=Obj(EXPA), K=Int, j=Int), lemma=True, no_rt=True)


@requires(LBX)
def lbx_pre(self, K, j):
    return expa_wf(self) and interior(self, K, j)


@hint(LBX, when='entry')
def lbx_h_windows(self, K, j):
    return (0 <= wl(self, K) and wl(self, K) <= self.a and 0 <= wr(self, K) and wr(self, K) <= self.a
            and 0 <= wr(self, K - 1) and wr(self, K - 1) <= self.a and 0 <= wl(self, K + 1) and wl(self, K + 1) <= self.a
            and 0 <= bl(self, K) and bl(self, K) <= wl(self, K) and 0 <= br(self, K) and br(self, K) <= wr(self, K))


@hint(LBX, when='entry')
def lbx_h_ties(self, K, j):
    return (implies(wr(self, K - 1) == 0 and wl(self, K) == 0 and K >= 2, ye(self, K - 1) == ye(self, K))
            and implies(wr(self, K) == 0 and wl(self, K + 1) == 0 and K <= len(self.x) - 2, ye(self, K) == ye(self, K + 1)))


@hint(LBX, when='entry')
def lbx_h_order(self, K, j):
    return (implies(wr(self, K - 1) >= 1, xl(self, K, wr(self, K - 1)) < xe(self, K, 0))
            and implies(wl(self, K) >= 1, xe(self, K, 0) < xr(self, K, wl(self, K)))
            and implies(wr(self, K) >= 1, xr(self, K, self.n - wr(self, K)) < xe(self, K + 1, 0))
            and implies(wl(self, K + 1) >= 1, xe(self, K + 1, 0) < xr(self, K + 1, wl(self, K + 1)))
            and xl(self, K, wr(self, K - 1)) <= xe(self, K, 0) and xe(self, K, 0) <= xr(self, K, wl(self, K))
            and xr(self, K, self.n - wr(self, K)) <= xe(self, K + 1, 0) and xe(self, K + 1, 0) <= xr(self, K + 1, wl(self, K + 1))
            and xe(self, K, 0) <= xr(self, K, bl(self, K)) and xr(self, K, bl(self, K)) <= xr(self, K, wl(self, K))
            and xr(self, K, self.n - wr(self, K)) <= xr(self, K, self.n - br(self, K)) and xr(self, K, self.n - br(self, K)) <= xe(self, K + 1, 0))


@hint(LBX, when='entry')
def lbx_h_order_j(self, K, j):
    return (implies(j < bl(self, K), xe(self, K, 0) <= xe(self, K, j) and xe(self, K, j) < xr(self, K, bl(self, K)))
            and implies(bl(self, K) <= j and j < wl(self, K), xr(self, K, bl(self, K)) <= xe(self, K, j) and xe(self, K, j) < xr(self, K, wl(self, K)))
            and implies(self.n - wr(self, K) <= j and j < self.n - br(self, K),
                        xr(self, K, self.n - wr(self, K)) <= xe(self, K, j) and xe(self, K, j) < xr(self, K, self.n - br(self, K)))
            and implies(self.n - br(self, K) <= j, xr(self, K, self.n - br(self, K)) <= xe(self, K, j) and xe(self, K, j) < xe(self, K + 1, 0)))


@hint(LBX, when='entry')
def lbx_h_borders(self, K, j):
    return between(z0a(self, K), ye(self, K - 1), ye(self, K)) and between(z0a(self, K + 1), ye(self, K), ye(self, K + 1))


@hint(LBX, when='entry')
def lbx_h_breaks(self, K, j):
    return between(zlba(self, K), z0a(self, K), ye(self, K)) and implies(wr(self, K) >= 1, between(zrba(self, K), ye(self, K), z0a(self, K + 1)))


@ensures(LBX)
def lbx_plateau(self, K, j):
    """C05: between the two windows the samples equal the average"""
    return implies(wl(self, K) <= j and j < self.n - wr(self, K), fea(self, K, j) == ye(self, K))


@ensures(LBX)
def lbx_left_linear(self, K, j):
    return implies(j < bl(self, K), between(fea(self, K, j), z0a(self, K), zlba(self, K)))


@ensures(LBX)
def lbx_left_blend(self, K, j):
    return implies(bl(self, K) <= j and j < wl(self, K), between(fea(self, K, j), zlba(self, K), ye(self, K)))


@ensures(LBX)
def lbx_right_ratio(self, K, j):
    """inside the right blend the two weights are t in [0, 1) and 1 - t"""
    return implies(self.n - wr(self, K) <= j and j < self.n - br(self, K),
                   0 <= ratio(xe(self, K, j), xr(self, K, self.n - wr(self, K)), xr(self, K, self.n - br(self, K)))
                   and ratio(xe(self, K, j), xr(self, K, self.n - wr(self, K)), xr(self, K, self.n - br(self, K))) < 1
                   and (xr(self, K, self.n - br(self, K)) - xe(self, K, j)) / (xr(self, K, self.n - br(self, K)) - xr(self, K, self.n - wr(self, K)))
                   == 1 - ratio(xe(self, K, j), xr(self, K, self.n - wr(self, K)), xr(self, K, self.n - br(self, K))))


def rt_(self, K, j):
    return ratio(xe(self, K, j), xr(self, K, self.n - wr(self, K)), xr(self, K, self.n - br(self, K)))


@ensures(LBX)
def lbx_right_weight(self, K, j):
    """the blend is y0 + (y1 - y0) * c with c = t*t + t^exp * (1 - t) in [0, 1]"""
    return implies(self.n - wr(self, K) <= j and j < self.n - br(self, K),
                   0 <= pw(rt_(self, K, j), self.exp) and pw(rt_(self, K, j), self.exp) <= 1
                   and 0 <= rt_(self, K, j) * rt_(self, K, j) + pw(rt_(self, K, j), self.exp) * (1 - rt_(self, K, j))
                   and rt_(self, K, j) * rt_(self, K, j) + pw(rt_(self, K, j), self.exp) * (1 - rt_(self, K, j)) <= 1
                   and fa4(self, K, j) == ye(self, K) + (zrba(self, K) - ye(self, K))
                   * (rt_(self, K, j) * rt_(self, K, j) + pw(rt_(self, K, j), self.exp) * (1 - rt_(self, K, j))))


@ensures(LBX)
def lbx_right_blend(self, K, j):
    return implies(self.n - wr(self, K) <= j and j < self.n - br(self, K), between(fea(self, K, j), ye(self, K), zrba(self, K)))


@ensures(LBX)
def lbx_right_linear(self, K, j):
    return implies(self.n - br(self, K) <= j and wr(self, K) >= 1, between(fea(self, K, j), zrba(self, K), z0a(self, K + 1)))


@ensures(LBX)
def lbx_left(self, K, j):
    """C05: every left transition sample lies between the two adjacent averages"""
    return implies(j < wl(self, K), between(fea(self, K, j), ye(self, K - 1), ye(self, K)))


@ensures(LBX)
def lbx_right(self, K, j):
    return implies(self.n - wr(self, K) <= j, between(fea(self, K, j), ye(self, K), ye(self, K + 1)))


LLX = 'lemma:rfa.exp_adaptive.locality'
contract(LLX, params=dict(s1=Obj(EXPA), s2=Obj(EXPA), K=Int, j=Int), lemma=True, no_rt=True)


def same_setup_x(s1, s2):
    return (len(s1.x) == len(s2.x) and s1.n == s2.n and s1.a == s2.a and s1.adaptive_smooth == s2.adaptive_smooth and s1.beta == s2.beta
            and s1.exp == s2.exp)


@requires(LLX)
def llx_pre(s1, s2, K, j):
    return (expa_wf(s1) and expa_wf(s2) and same_setup_x(s1, s2) and interior(s1, K, j)
            and forall(range(len(s1.x)), lambda i: s2.x[i] == s1.x[i])
            and forall(range(len(s1.x)), lambda i: s2.y[i] == s1.y[i] if (K - 3 <= i and i <= K + 1) else True)
            and 3 <= K and K <= len(s1.x) - 3)


@hint(LLX, when='entry')
def llx_h_averages(s1, s2, K, j):
    return (ye(s2, K - 2) == ye(s1, K - 2) and ye(s2, K - 1) == ye(s1, K - 1) and ye(s2, K) == ye(s1, K) and ye(s2, K + 1) == ye(s1, K + 1)
            and ye(s2, K + 2) == ye(s1, K + 2))


@hint(LLX, when='entry')
def llx_h_windows(s1, s2, K, j):
    return (wl(s2, K) == wl(s1, K) and wr(s2, K) == wr(s1, K) and wr(s2, K - 1) == wr(s1, K - 1) and wl(s2, K + 1) == wl(s1, K + 1)
            and bl(s2, K) == bl(s1, K) and br(s2, K) == br(s1, K))


@hint(LLX, when='entry')
def llx_h_grid(s1, s2, K, j):
    return (xe(s2, K, j) == xe(s1, K, j) and xe(s2, K, 0) == xe(s1, K, 0) and xe(s2, K + 1, 0) == xe(s1, K + 1, 0)
            and xr(s2, K, wl(s1, K)) == xr(s1, K, wl(s1, K)) and xr(s2, K, bl(s1, K)) == xr(s1, K, bl(s1, K))
            and xr(s2, K, s1.n - wr(s1, K)) == xr(s1, K, s1.n - wr(s1, K)) and xr(s2, K, s1.n - br(s1, K)) == xr(s1, K, s1.n - br(s1, K))
            and xl(s2, K, wr(s1, K - 1)) == xl(s1, K, wr(s1, K - 1))
            and xl(s2, K + 1, wr(s1, K)) == xl(s1, K + 1, wr(s1, K)) and xr(s2, K + 1, wl(s1, K + 1)) == xr(s1, K + 1, wl(s1, K + 1)))


@hint(LLX, when='entry')
def llx_h_abscissae(s1, s2, K, j):
    """the abscissae the pieces read are the same terms in both objects (congruence only; keeps the piece equalities below
    from depending on the solver finding the chain bl(s2) = bl(s1) -> xr(s2, K, bl(s2)) = xr(s1, K, bl(s1)) by itself)"""
    return (x_bl(s2, K) == x_bl(s1, K) and x_wl(s2, K) == x_wl(s1, K) and x_wr(s2, K) == x_wr(s1, K) and x_br(s2, K) == x_br(s1, K)
            and s2.exp == s1.exp)


@hint(LLX, when='entry')
def llx_h_borders(s1, s2, K, j):
    return (z0a(s2, K) == z0a(s1, K) and z0a(s2, K + 1) == z0a(s1, K + 1) and zlba(s2, K) == zlba(s1, K) and zrba(s2, K) == zrba(s1, K))


@opaque
def lexy_o(x, x0, y0, x1, y1, al):
    """lexy behind an uninterpreted symbol: equal arguments give equal values by congruence, without the power terms being looked at"""
    return lexy(x, x0, y0, x1, y1, al)


@opaque
def elin_o(x, x0, y0, x1, y1, al):
    return elin(x, x0, y0, x1, y1, al)


def pieces_unfolded(s, K, j):
    return (fa1(s, K, j) == lf(xe(s, K, j), xe(s, K, 0), z0a(s, K), x_bl(s, K), zlba(s, K))
            and fa2(s, K, j) == lexy_o(xe(s, K, j), x_bl(s, K), zlba(s, K), x_wl(s, K), ye(s, K), s.exp)
            and fa4(s, K, j) == elin_o(xe(s, K, j), x_wr(s, K), ye(s, K), x_br(s, K), zrba(s, K), s.exp)
            and fa5(s, K, j) == lf(xe(s, K, j), x_br(s, K), zrba(s, K), xe(s, K + 1, 0), z0a(s, K + 1)))


@hint(LLX, when='entry')
def llx_h_unfold1(s1, s2, K, j):
    return pieces_unfolded(s1, K, j)


@hint(LLX, when='entry')
def llx_h_unfold2(s1, s2, K, j):
    return pieces_unfolded(s2, K, j)


@hint(LLX, when='entry')
def llx_h_piece1(s1, s2, K, j):
    return fa1(s2, K, j) == fa1(s1, K, j)


@hint(LLX, when='entry')
def llx_h_piece2(s1, s2, K, j):
    return fa2(s2, K, j) == fa2(s1, K, j)


@hint(LLX, when='entry')
def llx_h_piece4(s1, s2, K, j):
    return fa4(s2, K, j) == fa4(s1, K, j)


@hint(LLX, when='entry')
def llx_h_piece5(s1, s2, K, j):
    return fa5(s2, K, j) == fa5(s1, K, j)


@ensures(LLX)
def llx_local(s1, s2, K, j):
    """C07: a recreated value of an interval reads only that interval's average and two neighbours on each side"""
    return fea(s2, K, j) == fea(s1, K, j)


# ---- C07: change of units of the time axis for ExpFixedRFA: x -> c*x + d (c > 0).  Every piece reads the abscissae only through
# the ratios t = (x - x0)/(x1 - x0), u = (x1 - x)/(x1 - x0), which the map leaves unchanged when x0 != x1; each piece is therefore
# considered on its own range of j, where its end points are distinct.

LEXE = 'lemma:rfa.exp_fixed.equivariance_x'
contract(LEXE, params=dict(s1=Obj(EXPF), s2=Obj(EXPF), c=Real, d=Real, K=Int, j=Int), lemma=True, no_rt=True)


def ratios_kept(x, x0, x1, c, d):
    return (tt(c * x + d, c * x0 + d, c * x1 + d) == tt(x, x0, x1) and uu(c * x + d, c * x0 + d, c * x1 + d) == uu(x, x0, x1))


def x_b(s, K):
    return xe(s, K, s.b)


def x_al(s, K):
    return xe(s, K, s.a_l)


def x_ar(s, K):
    return xe(s, K, s.n - s.a_r)


def x_nb(s, K):
    return xr(s, K, s.n - s.b)


@requires(LEXE)
def lexe_pre(s1, s2, c, d, K, j):
    return (expf_pre(s1) and expf_pre(s2) and same_setup_e(s1, s2) and interior(s1, K, j) and c > 0
            and forall(range(len(s1.x)), lambda i: s2.y[i] == s1.y[i] and s2.x[i] == c * s1.x[i] + d))


@hint(LEXE, when='entry')
def lexe_h_xr(s1, s2, c, d, K, j):
    return (xr(s1, K, s1.n - s1.b) == (xe(s1, K, s1.n - s1.b) if s1.b >= 1 else xe(s1, K + 1, 0))
            and xr(s2, K, s1.n - s1.b) == (xe(s2, K, s1.n - s1.b) if s1.b >= 1 else xe(s2, K + 1, 0)))


@hint(LEXE, when='entry')
def lexe_h_order(s1, s2, c, d, K, j):
    return expf_order(s1, K)


@hint(LEXE, when='entry')
def lexe_h_order_j(s1, s2, c, d, K, j):
    return lbe_h_order_j(s1, K, j)


@hint(LEXE, when='entry')
def lexe_h_grid(s1, s2, c, d, K, j):
    return (grid_points_e(s1, s2, K, j, c, d) and ye(s2, K) == ye(s1, K) and ye(s2, K - 1) == ye(s1, K - 1) and ye(s2, K + 1) == ye(s1, K + 1))


def same_ratios(p2, q2, r2, p1, q1, r1):
    return tt(p2, q2, r2) == tt(p1, q1, r1) and uu(p2, q2, r2) == uu(p1, q1, r1)


@hint(LEXE, when='entry')
def lexe_h_ratio_borders(s1, s2, c, d, K, j):
    return (same_ratios(xe(s2, K, 0), x_ar(s2, K - 1), x_al(s2, K), xe(s1, K, 0), x_ar(s1, K - 1), x_al(s1, K))
            and same_ratios(xe(s2, K + 1, 0), x_ar(s2, K), x_al(s2, K + 1), xe(s1, K + 1, 0), x_ar(s1, K), x_al(s1, K + 1)))


@hint(LEXE, when='entry')
def lexe_h_borders(s1, s2, c, d, K, j):
    return z0(s2, K) == z0(s1, K) and z0(s2, K + 1) == z0(s1, K + 1)


@hint(LEXE, when='entry')
def lexe_h_ratio_breaks(s1, s2, c, d, K, j):
    return (same_ratios(x_b(s2, K), xe(s2, K, 0), x_al(s2, K), x_b(s1, K), xe(s1, K, 0), x_al(s1, K))
            and same_ratios(x_nb(s2, K), x_ar(s2, K), xe(s2, K + 1, 0), x_nb(s1, K), x_ar(s1, K), xe(s1, K + 1, 0)))


@hint(LEXE, when='entry')
def lexe_h_breaks(s1, s2, c, d, K, j):
    return zlb(s2, K) == zlb(s1, K) and zrb(s2, K) == zrb(s1, K)


@hint(LEXE, when='entry')
def lexe_h_ratio_pieces(s1, s2, c, d, K, j):
    return (implies(j < s1.b, same_ratios(xe(s2, K, j), xe(s2, K, 0), x_b(s2, K), xe(s1, K, j), xe(s1, K, 0), x_b(s1, K)))
            and implies(s1.b <= j and j < s1.a_l, same_ratios(xe(s2, K, j), x_b(s2, K), x_al(s2, K), xe(s1, K, j), x_b(s1, K), x_al(s1, K)))
            and implies(s1.n - s1.a_r <= j and j < s1.n - s1.b,
                        same_ratios(xe(s2, K, j), x_ar(s2, K), x_nb(s2, K), xe(s1, K, j), x_ar(s1, K), x_nb(s1, K)))
            and implies(s1.n - s1.b <= j, same_ratios(xe(s2, K, j), x_nb(s2, K), xe(s2, K + 1, 0), xe(s1, K, j), x_nb(s1, K), xe(s1, K + 1, 0))))


@hint(LEXE, when='entry')
def lexe_h_pieces(s1, s2, c, d, K, j):
    return (implies(j < s1.b, fe1(s2, K, j) == fe1(s1, K, j))
            and implies(s1.b <= j and j < s1.a_l, fe2(s2, K, j) == fe2(s1, K, j))
            and implies(s1.n - s1.a_r <= j and j < s1.n - s1.b, fe4(s2, K, j) == fe4(s1, K, j))
            and implies(s1.n - s1.b <= j, fe5(s2, K, j) == fe5(s1, K, j)))


@ensures(LEXE)
def lexe_commutes(s1, s2, c, d, K, j):
    """C07: x -> c*x + d (c > 0) before recreation: the same values on the mapped grid, for every exponent"""
    return fe(s2, K, j) == fe(s1, K, j) and xe(s2, K, j) == c * xe(s1, K, j) + d


# ---- C07: change of units of the time axis for LinearAdaptiveRFA: the windows do not read the abscissae at all, the pieces read
# them through ratios only

LEXA = 'lemma:rfa.linear_adaptive.equivariance_x'
contract(LEXA, params=dict(s1=Obj(LINA), s2=Obj(LINA), c=Real, d=Real, K=Int, j=Int), lemma=True, no_rt=True)


@requires(LEXA)
def lexa_pre(s1, s2, c, d, K, j):
    return (lina_wf(s1) and lina_wf(s2) and same_setup_a(s1, s2) and interior(s1, K, j) and c > 0 and 2 <= K and K <= len(s1.x) - 2
            and forall(range(len(s1.x)), lambda i: s2.y[i] == s1.y[i] and s2.x[i] == c * s1.x[i] + d))


@hint(LEXA, when='entry')
def lexa_h_averages(s1, s2, c, d, K, j):
    return (ye(s2, K - 2) == ye(s1, K - 2) and ye(s2, K - 1) == ye(s1, K - 1) and ye(s2, K) == ye(s1, K)
            and ye(s2, K + 1) == ye(s1, K + 1) and ye(s2, K + 2) == ye(s1, K + 2))


@hint(LEXA, when='entry')
def lexa_h_jumps(s1, s2, c, d, K, j):
    return (jr(s2, K) == jr(s1, K) and jl(s2, K) == jl(s1, K) and jr(s2, K - 1) == jr(s1, K - 1) and jl(s2, K - 1) == jl(s1, K - 1)
            and jr(s2, K + 1) == jr(s1, K + 1) and jl(s2, K + 1) == jl(s1, K + 1))


@hint(LEXA, when='entry')
def lexa_h_windows(s1, s2, c, d, K, j):
    return (wl(s2, K) == wl(s1, K) and wr(s2, K) == wr(s1, K) and wr(s2, K - 1) == wr(s1, K - 1) and wl(s2, K + 1) == wl(s1, K + 1))


@hint(LEXA, when='entry')
def lexa_h_window_bounds(s1, s2, c, d, K, j):
    return lba_h_windows(s1, K, j)


@hint(LEXA, when='entry')
def lexa_h_order(s1, s2, c, d, K, j):
    return lba_h_order(s1, K, j)


@hint(LEXA, when='entry')
def lexa_h_order_j(s1, s2, c, d, K, j):
    return lba_h_order_j(s1, K, j)


def x_pl(s, K):
    """plateau end of interval K-1 (start of the transition into interval K)"""
    return xl(s, K, wr(s, K - 1))


def x_wla(s, K):
    return xr(s, K, wl(s, K))


def x_wra(s, K):
    return xr(s, K, s.n - wr(s, K))


@hint(LEXA, when='entry')
def lexa_h_grid(s1, s2, c, d, K, j):
    return (xe(s2, K, j) == c * xe(s1, K, j) + d and xe(s2, K, 0) == c * xe(s1, K, 0) + d and xe(s2, K + 1, 0) == c * xe(s1, K + 1, 0) + d
            and xr(s2, K, j) == c * xr(s1, K, j) + d and x_wla(s2, K) == c * x_wla(s1, K) + d and x_wra(s2, K) == c * x_wra(s1, K) + d
            and x_pl(s2, K) == c * x_pl(s1, K) + d and x_pl(s2, K + 1) == c * x_pl(s1, K + 1) + d and x_wla(s2, K + 1) == c * x_wla(s1, K + 1) + d)


@hint(LEXA, when='entry')
def lexa_h_distinct(s1, s2, c, d, K, j):
    return (implies(wr(s1, K - 1) >= 1 or wl(s1, K) >= 1, x_pl(s1, K) < x_wla(s1, K))
            and implies(wr(s1, K) >= 1 or wl(s1, K + 1) >= 1, x_pl(s1, K + 1) < x_wla(s1, K + 1)))


@hint(LEXA, when='entry')
def lexa_h_ratio_borders(s1, s2, c, d, K, j):
    return (implies(wr(s1, K - 1) >= 1 or wl(s1, K) >= 1,
                    same_ratios(xe(s2, K, 0), x_pl(s2, K), x_wla(s2, K), xe(s1, K, 0), x_pl(s1, K), x_wla(s1, K)))
            and implies(wr(s1, K) >= 1 or wl(s1, K + 1) >= 1,
                        same_ratios(xe(s2, K + 1, 0), x_pl(s2, K + 1), x_wla(s2, K + 1), xe(s1, K + 1, 0), x_pl(s1, K + 1), x_wla(s1, K + 1))))


@hint(LEXA, when='entry')
def lexa_h_borders(s1, s2, c, d, K, j):
    return z0a(s2, K) == z0a(s1, K) and z0a(s2, K + 1) == z0a(s1, K + 1) and ba(s2, K) == ba(s1, K)


@hint(LEXA, when='entry')
def lexa_h_ratio_pieces(s1, s2, c, d, K, j):
    return (implies(j < wl(s1, K), same_ratios(xe(s2, K, j), xe(s2, K, 0), x_wla(s2, K), xe(s1, K, j), xe(s1, K, 0), x_wla(s1, K)))
            and implies(j > s1.n - wr(s1, K), same_ratios(xr(s2, K, j), x_wra(s2, K), xe(s2, K + 1, 0), xr(s1, K, j), x_wra(s1, K), xe(s1, K + 1, 0))))


@hint(LEXA, when='entry')
def lexa_h_pieces(s1, s2, c, d, K, j):
    return (implies(j < wl(s1, K), fal(s2, K, j) == fal(s1, K, j)) and implies(j > s1.n - wr(s1, K), far(s2, K, j) == far(s1, K, j)))


@ensures(LEXA)
def lexa_commutes(s1, s2, c, d, K, j):
    """C07: x -> c*x + d (c > 0) before recreation with LinearAdaptiveRFA: same values on the mapped grid (intervals with two neighbours on each side)"""
    return fa(s2, K, j) == fa(s1, K, j) and xe(s2, K, j) == c * xe(s1, K, j) + d


# ---- C07: change of units of the values for ExpAdaptiveRFA (windows as in LinearAdaptiveRFA: ratios of absolute jumps; blends as
# in ExpFixedRFA: weights that sum to one)

LEAX = 'lemma:rfa.exp_adaptive.equivariance_y'
contract(LEAX, params=dict(s1=Obj(EXPA), s2=Obj(EXPA), al=Real, be=Real, K=Int, j=Int), lemma=True, no_rt=True)


@requires(LEAX)
def leax_pre(s1, s2, al, be, K, j):
    return (expa_wf(s1) and expa_wf(s2) and same_setup_x(s1, s2) and interior(s1, K, j) and al != 0 and 2 <= K and K <= len(s1.x) - 2
            and forall(range(len(s1.x)), lambda i: s2.y[i] == al * s1.y[i] + be and s2.x[i] == s1.x[i]))


@hint(LEAX, when='entry')
def leax_h_averages(s1, s2, al, be, K, j):
    return lea_h_averages(s1, s2, al, be, K, j)


@hint(LEAX, when='entry')
def leax_h_jumps(s1, s2, al, be, K, j):
    return lea_h_jumps(s1, s2, al, be, K, j)


@hint(LEAX, when='entry')
def leax_h_ratios(s1, s2, al, be, K, j):
    return lea_h_ratios(s1, s2, al, be, K, j)


@hint(LEAX, when='entry')
def leax_h_windows(s1, s2, al, be, K, j):
    return (wl(s2, K) == wl(s1, K) and wr(s2, K) == wr(s1, K) and wr(s2, K - 1) == wr(s1, K - 1) and wl(s2, K + 1) == wl(s1, K + 1)
            and bl(s2, K) == bl(s1, K) and br(s2, K) == br(s1, K))


@hint(LEAX, when='entry')
def leax_h_window_bounds(s1, s2, al, be, K, j):
    return lbx_h_windows(s1, K, j)


@hint(LEAX, when='entry')
def leax_h_order(s1, s2, al, be, K, j):
    return lbx_h_order(s1, K, j)


@hint(LEAX, when='entry')
def leax_h_order_j(s1, s2, al, be, K, j):
    return lbx_h_order_j(s1, K, j)


@hint(LEAX, when='entry')
def leax_h_grid(s1, s2, al, be, K, j):
    return llx_h_grid(s1, s2, K, j)


@hint(LEAX, when='entry')
def leax_h_borders(s1, s2, al, be, K, j):
    return z0a(s2, K) == al * z0a(s1, K) + be and z0a(s2, K + 1) == al * z0a(s1, K + 1) + be


@hint(LEAX, when='entry')
def leax_h_breaks(s1, s2, al, be, K, j):
    return zlba(s2, K) == al * zlba(s1, K) + be and zrba(s2, K) == al * zrba(s1, K) + be


@hint(LEAX, when='entry')
def leax_h_unit(s1, s2, al, be, K, j):
    return (implies(bl(s1, K) <= j and j < wl(s1, K),
                    uu(xe(s1, K, j), xr(s1, K, bl(s1, K)), xr(s1, K, wl(s1, K))) == 1 - tt(xe(s1, K, j), xr(s1, K, bl(s1, K)), xr(s1, K, wl(s1, K))))
            and implies(s1.n - wr(s1, K) <= j and j < s1.n - br(s1, K),
                        uu(xe(s1, K, j), xr(s1, K, s1.n - wr(s1, K)), xr(s1, K, s1.n - br(s1, K)))
                        == 1 - tt(xe(s1, K, j), xr(s1, K, s1.n - wr(s1, K)), xr(s1, K, s1.n - br(s1, K)))))


def x_bl(s, K):
    return xr(s, K, bl(s, K))


def x_wl(s, K):
    return xr(s, K, wl(s, K))


def x_wr(s, K):
    return xr(s, K, s.n - wr(s, K))


def x_br(s, K):
    return xr(s, K, s.n - br(s, K))


@hint(LEAX, when='entry')
def leax_h_abscissae(s1, s2, al, be, K, j):
    """the abscissae the pieces read, in the second object, are those of the first (congruence only)"""
    return (x_bl(s2, K) == x_bl(s1, K) and x_wl(s2, K) == x_wl(s1, K) and x_wr(s2, K) == x_wr(s1, K) and x_br(s2, K) == x_br(s1, K)
            and s2.exp == s1.exp)


@hint(LEAX, when='entry')
def leax_h_unfold2(s1, s2, al, be, K, j):
    """the pieces of the second object written over the abscissae of the first (unfolding and congruence, no arithmetic)"""
    return (fa1(s2, K, j) == lf(xe(s1, K, j), xe(s1, K, 0), z0a(s2, K), x_bl(s1, K), zlba(s2, K))
            and fa2(s2, K, j) == lexy(xe(s1, K, j), x_bl(s1, K), zlba(s2, K), x_wl(s1, K), ye(s2, K), s1.exp)
            and fa4(s2, K, j) == elin(xe(s1, K, j), x_wr(s1, K), ye(s2, K), x_br(s1, K), zrba(s2, K), s1.exp)
            and fa5(s2, K, j) == lf(xe(s1, K, j), x_br(s1, K), zrba(s2, K), xe(s1, K + 1, 0), z0a(s2, K + 1)))


@hint(LEAX, when='entry')
def leax_h_unfold1(s1, s2, al, be, K, j):
    return (fa1(s1, K, j) == lf(xe(s1, K, j), xe(s1, K, 0), z0a(s1, K), x_bl(s1, K), zlba(s1, K))
            and fa2(s1, K, j) == lexy(xe(s1, K, j), x_bl(s1, K), zlba(s1, K), x_wl(s1, K), ye(s1, K), s1.exp)
            and fa4(s1, K, j) == elin(xe(s1, K, j), x_wr(s1, K), ye(s1, K), x_br(s1, K), zrba(s1, K), s1.exp)
            and fa5(s1, K, j) == lf(xe(s1, K, j), x_br(s1, K), zrba(s1, K), xe(s1, K + 1, 0), z0a(s1, K + 1)))


@hint(LEAX, when='entry')
def leax_h_affine_linear(s1, s2, al, be, K, j):
    """arithmetic only: a straight line through affinely mapped end values is the affinely mapped straight line"""
    return (lf(xe(s1, K, j), xe(s1, K, 0), al * z0a(s1, K) + be, x_bl(s1, K), al * zlba(s1, K) + be)
            == al * lf(xe(s1, K, j), xe(s1, K, 0), z0a(s1, K), x_bl(s1, K), zlba(s1, K)) + be
            and lf(xe(s1, K, j), x_br(s1, K), al * zrba(s1, K) + be, xe(s1, K + 1, 0), al * z0a(s1, K + 1) + be)
            == al * lf(xe(s1, K, j), x_br(s1, K), zrba(s1, K), xe(s1, K + 1, 0), z0a(s1, K + 1)) + be)


@hint(LEAX, when='entry')
def leax_h_affine_left(s1, s2, al, be, K, j):
    """arithmetic only: the same for the linear/power blend (weights sum to one)"""
    return implies(bl(s1, K) <= j and j < wl(s1, K),
                   lexy(xe(s1, K, j), x_bl(s1, K), al * zlba(s1, K) + be, x_wl(s1, K), al * ye(s1, K) + be, s1.exp)
                   == al * lexy(xe(s1, K, j), x_bl(s1, K), zlba(s1, K), x_wl(s1, K), ye(s1, K), s1.exp) + be)


@hint(LEAX, when='entry')
def leax_h_affine_right(s1, s2, al, be, K, j):
    return implies(s1.n - wr(s1, K) <= j and j < s1.n - br(s1, K),
                   elin(xe(s1, K, j), x_wr(s1, K), al * ye(s1, K) + be, x_br(s1, K), al * zrba(s1, K) + be, s1.exp)
                   == al * elin(xe(s1, K, j), x_wr(s1, K), ye(s1, K), x_br(s1, K), zrba(s1, K), s1.exp) + be)


@hint(LEAX, when='entry')
def leax_h_linear_pieces(s1, s2, al, be, K, j):
    return fa1(s2, K, j) == al * fa1(s1, K, j) + be and fa5(s2, K, j) == al * fa5(s1, K, j) + be


@hint(LEAX, when='entry')
def leax_h_blend_left(s1, s2, al, be, K, j):
    return implies(bl(s1, K) <= j and j < wl(s1, K), fa2(s2, K, j) == al * fa2(s1, K, j) + be)


@hint(LEAX, when='entry')
def leax_h_blend_right(s1, s2, al, be, K, j):
    return implies(s1.n - wr(s1, K) <= j and j < s1.n - br(s1, K), fa4(s2, K, j) == al * fa4(s1, K, j) + be)


@ensures(LEAX)
def leax_commutes(s1, s2, al, be, K, j):
    """C07: y -> al*y + be (al != 0) commutes with ExpAdaptiveRFA on intervals with two neighbours on each side, for every exponent"""
    return fea(s2, K, j) == al * fea(s1, K, j) + be


# ---- C07: change of units of the time axis for ExpAdaptiveRFA

LEXX = 'lemma:rfa.exp_adaptive.equivariance_x'
contract(LEXX, params=dict(s1=Obj(EXPA), s2=Obj(EXPA), c=Real, d=Real, K=Int, j=Int), lemma=True, no_rt=True)


@requires(LEXX)
def lexx_pre(s1, s2, c, d, K, j):
    return (expa_wf(s1) and expa_wf(s2) and same_setup_x(s1, s2) and interior(s1, K, j) and c > 0 and 2 <= K and K <= len(s1.x) - 2
            and forall(range(len(s1.x)), lambda i: s2.y[i] == s1.y[i] and s2.x[i] == c * s1.x[i] + d))


@hint(LEXX, when='entry')
def lexx_h_averages(s1, s2, c, d, K, j):
    return lexa_h_averages(s1, s2, c, d, K, j)


@hint(LEXX, when='entry')
def lexx_h_jumps(s1, s2, c, d, K, j):
    return lexa_h_jumps(s1, s2, c, d, K, j)


@hint(LEXX, when='entry')
def lexx_h_windows(s1, s2, c, d, K, j):
    return (wl(s2, K) == wl(s1, K) and wr(s2, K) == wr(s1, K) and wr(s2, K - 1) == wr(s1, K - 1) and wl(s2, K + 1) == wl(s1, K + 1)
            and bl(s2, K) == bl(s1, K) and br(s2, K) == br(s1, K))


@hint(LEXX, when='entry')
def lexx_h_window_bounds(s1, s2, c, d, K, j):
    return lbx_h_windows(s1, K, j)


@hint(LEXX, when='entry')
def lexx_h_order(s1, s2, c, d, K, j):
    return lbx_h_order(s1, K, j)


@hint(LEXX, when='entry')
def lexx_h_order_j(s1, s2, c, d, K, j):
    return lbx_h_order_j(s1, K, j)


@hint(LEXX, when='entry')
def lexx_h_distinct(s1, s2, c, d, K, j):
    return (implies(wr(s1, K - 1) >= 1 or wl(s1, K) >= 1, x_pl(s1, K) < x_wl(s1, K))
            and implies(wr(s1, K) >= 1 or wl(s1, K + 1) >= 1, x_pl(s1, K + 1) < x_wl(s1, K + 1))
            and implies(bl(s1, K) >= 1, xe(s1, K, 0) < x_wl(s1, K)) and implies(br(s1, K) >= 1, x_wr(s1, K) < xe(s1, K + 1, 0)))


@hint(LEXX, when='entry')
def lexx_h_grid(s1, s2, c, d, K, j):
    return (xe(s2, K, j) == c * xe(s1, K, j) + d and xe(s2, K, 0) == c * xe(s1, K, 0) + d and xe(s2, K + 1, 0) == c * xe(s1, K + 1, 0) + d
            and x_bl(s2, K) == c * x_bl(s1, K) + d and x_wl(s2, K) == c * x_wl(s1, K) + d
            and x_wr(s2, K) == c * x_wr(s1, K) + d and x_br(s2, K) == c * x_br(s1, K) + d
            and x_pl(s2, K) == c * x_pl(s1, K) + d and x_pl(s2, K + 1) == c * x_pl(s1, K + 1) + d and x_wl(s2, K + 1) == c * x_wl(s1, K + 1) + d
            and s2.exp == s1.exp)


@hint(LEXX, when='entry')
def lexx_h_ratio_borders(s1, s2, c, d, K, j):
    return (implies(wr(s1, K - 1) >= 1 or wl(s1, K) >= 1,
                    same_ratios(xe(s2, K, 0), x_pl(s2, K), x_wl(s2, K), xe(s1, K, 0), x_pl(s1, K), x_wl(s1, K)))
            and implies(wr(s1, K) >= 1 or wl(s1, K + 1) >= 1,
                        same_ratios(xe(s2, K + 1, 0), x_pl(s2, K + 1), x_wl(s2, K + 1), xe(s1, K + 1, 0), x_pl(s1, K + 1), x_wl(s1, K + 1))))


@hint(LEXX, when='entry')
def lexx_h_borders(s1, s2, c, d, K, j):
    return z0a(s2, K) == z0a(s1, K) and z0a(s2, K + 1) == z0a(s1, K + 1)


@hint(LEXX, when='entry')
def lexx_h_ratio_breaks(s1, s2, c, d, K, j):
    return (implies(bl(s1, K) >= 1, same_ratios(x_bl(s2, K), xe(s2, K, 0), x_wl(s2, K), x_bl(s1, K), xe(s1, K, 0), x_wl(s1, K)))
            and implies(br(s1, K) >= 1, same_ratios(x_br(s2, K), x_wr(s2, K), xe(s2, K + 1, 0), x_br(s1, K), x_wr(s1, K), xe(s1, K + 1, 0))))


@hint(LEXX, when='entry')
def lexx_h_breaks(s1, s2, c, d, K, j):
    return zlba(s2, K) == zlba(s1, K) and zrba(s2, K) == zrba(s1, K)


@hint(LEXX, when='entry')
def lexx_h_ratio_pieces(s1, s2, c, d, K, j):
    return (implies(j < bl(s1, K), same_ratios(xe(s2, K, j), xe(s2, K, 0), x_bl(s2, K), xe(s1, K, j), xe(s1, K, 0), x_bl(s1, K)))
            and implies(bl(s1, K) <= j and j < wl(s1, K), same_ratios(xe(s2, K, j), x_bl(s2, K), x_wl(s2, K), xe(s1, K, j), x_bl(s1, K), x_wl(s1, K)))
            and implies(s1.n - wr(s1, K) <= j and j < s1.n - br(s1, K),
                        same_ratios(xe(s2, K, j), x_wr(s2, K), x_br(s2, K), xe(s1, K, j), x_wr(s1, K), x_br(s1, K)))
            and implies(s1.n - br(s1, K) <= j, same_ratios(xe(s2, K, j), x_br(s2, K), xe(s2, K + 1, 0), xe(s1, K, j), x_br(s1, K), xe(s1, K + 1, 0))))


@hint(LEXX, when='entry')
def lexx_h_pieces(s1, s2, c, d, K, j):
    return (implies(j < bl(s1, K), fa1(s2, K, j) == fa1(s1, K, j))
            and implies(bl(s1, K) <= j and j < wl(s1, K), fa2(s2, K, j) == fa2(s1, K, j))
            and implies(s1.n - wr(s1, K) <= j and j < s1.n - br(s1, K), fa4(s2, K, j) == fa4(s1, K, j))
            and implies(s1.n - br(s1, K) <= j, fa5(s2, K, j) == fa5(s1, K, j)))


@ensures(LEXX)
def lexx_commutes(s1, s2, c, d, K, j):
    """C07: x -> c*x + d (c > 0) before recreation with ExpAdaptiveRFA: same values on the mapped grid (two neighbours on each side)"""
    return fea(s2, K, j) == fea(s1, K, j) and xe(s2, K, j) == c * xe(s1, K, j) + d
