"""process.py: trend / linear_trend / normalize (C14), repeat (C12), truncate (C11).

Postconditions are the sentences of the properties in index form; invariants come from the code.
"""
from pyvc.spec import *

P = 'traffic_weaver.process.'
TREND = P + 'trend'
LINTREND = P + 'linear_trend'
NORMALIZE = P + 'normalize'
REPEAT = P + 'repeat'
TRUNCATE = P + 'truncate'


# ------------------------------------------------------------------------------ trend

contract(TREND, params=dict(x=Seq(Real, kind='arraylike'), y=Seq(Real, kind='arraylike'), fun=Fn(1), normalized=Bool),
         returns=Tuple(Seq(Real), Seq(Real)))


@requires(TREND)
def trend_pre(x, y, fun, normalized):
    return len(x) >= 1 and len(y) == len(x) and implies(normalized, x[len(x) - 1] != x[0])


def trend_arg(x, i, normalized):
    return (x[i] / (x[len(x) - 1] - x[0])) if normalized else x[i]


@ensures(TREND)
def trend_post_x(x, y, fun, normalized, result):
    """x is left untouched"""
    return is_ndarray(result[0]) and len(result[0]) == len(x) and forall(range(len(x)), lambda i: result[0][i] == x[i])


@ensures(TREND)
def trend_post_y(x, y, fun, normalized, result):
    """f(x_i) - or f(x_i / (x_last - x_first)) - is added to every y_i"""
    return (is_ndarray(result[1]) and len(result[1]) == len(y)
            and forall(range(len(y)), lambda i: eq(result[1][i], y[i] + fun(trend_arg(x, i, normalized)))))


@invariant(TREND, loop=1)
def trend_inv(x, y, fun, normalized, range_x, i, x__pre, y__pre):
    return (len(x) == len(x__pre) and len(y) == len(y__pre) and len(x) == len(y) and len(x) >= 1
            and is_ndarray(x) and is_ndarray(y)
            and range_x == x__pre[len(x) - 1] - x__pre[0] and implies(normalized, range_x != 0)
            and forall(range(len(x)), lambda j: x[j] == x__pre[j])
            and forall(range(len(y)), lambda j: y[j] == ((y__pre[j] + fun(trend_arg(x__pre, j, normalized))) if j < i else y__pre[j])))


@decreases(TREND, loop=1)
def trend_dec(x, i):
    return len(x) - i


contract(LINTREND, params=dict(x=Seq(Real, kind='arraylike'), y=Seq(Real, kind='arraylike'), a=Real, normalized=Bool),
         returns=Tuple(Seq(Real), Seq(Real)))


@requires(LINTREND)
def lintrend_pre(x, y, a, normalized):
    return len(x) >= 1 and len(y) == len(x) and implies(normalized, x[len(x) - 1] != x[0])


@ensures(LINTREND)
def lintrend_post(x, y, a, normalized, result):
    return (len(result[0]) == len(x) and forall(range(len(x)), lambda i: result[0][i] == x[i])
            and len(result[1]) == len(y)
            and forall(range(len(y)), lambda i: eq(result[1][i], y[i] + a * trend_arg(x, i, normalized))))


# --------------------------------------------------------------------------- normalize

contract(NORMALIZE, params=dict(a=Seq(Real, kind='arraylike'), min_val=Real, max_val=Real), returns=Seq(Real))


@requires(NORMALIZE)
def normalize_pre(a, min_val, max_val):
    return len(a) >= 1 and exists(range(len(a)), lambda i: a[i] != a[0])


def is_min(a, i):
    return forall(range(len(a)), lambda j: a[i] <= a[j])


def is_max(a, i):
    return forall(range(len(a)), lambda j: a[i] >= a[j])


@ensures(NORMALIZE, export=False)
def normalize_ends(a, min_val, max_val, result):
    """the minimum is mapped to min_val and the maximum to max_val"""
    return (is_ndarray(result) and len(result) == len(a)
            and forall(range(len(a)), lambda i: implies(is_min(a, i), eq(result[i], min_val)) and implies(is_max(a, i), eq(result[i], max_val))))


@ensures(NORMALIZE)
def normalize_order(a, min_val, max_val, result):
    """increasing map for min_val < max_val: order is preserved"""
    return implies(min_val < max_val,
                   forall(range(len(a)), lambda i: forall(range(len(a)), lambda j:
                          implies(a[i] <= a[j], le(result[i], result[j])) and implies(a[i] < a[j], lt(result[i], result[j])))))


@hint(NORMALIZE, scoped=True)
def normalize_h_diff(a, min_val, max_val, result):
    """differences are scaled by one common factor"""
    return forall(range(len(a)), lambda i: forall(range(len(a)), lambda j:
                  result[i] - result[j] == (a[i] - a[j]) * ((max_val - min_val) / (max_of(a) - min_of(a)))))


@ensures(NORMALIZE, export=False, uses=['normalize_h_diff'])
def normalize_affine(a, min_val, max_val, result):
    """affine map: relative spacing (ratios of differences) is preserved"""
    return forall(range(len(a)), lambda i: forall(range(len(a)), lambda j: forall(range(len(a)), lambda k: forall(range(len(a)), lambda l:
                  eq((result[i] - result[j]) * (a[k] - a[l]), (result[k] - result[l]) * (a[i] - a[j]))))))


# ------------------------------------------------------------------------------ repeat

contract(REPEAT, params=dict(x=Seq(Real, kind='arraylike'), y=Seq(Real, kind='arraylike'), repeats=Int),
         returns=Tuple(Seq(Real), Seq(Real)))


@requires(REPEAT)
def repeat_pre(x, y, repeats):
    return len(x) >= 2 and len(y) == len(x) and repeats >= 1


def period(x):
    """span plus last step"""
    return (x[len(x) - 1] - x[0]) + (x[len(x) - 1] - x[len(x) - 2])


@ensures(REPEAT, export=False)
def repeat_post_y(x, y, repeats, result):
    """values: the original values tiled `repeats` times"""
    return (is_ndarray(result[1]) and len(result[1]) == repeats * len(y)
            and forall(range(repeats), lambda c: forall(range(len(y)), lambda j: result[1][c * len(y) + j] == y[j])))


@ensures(REPEAT, export=False)
def repeat_post_x(x, y, repeats, result):
    """abscissae: copy c is the input shifted by c periods (period = span + last step)"""
    return (is_ndarray(result[0]) and len(result[0]) == repeats * len(x)
            and forall(range(repeats), lambda c: forall(range(len(x)), lambda j:
                       eq(result[0][c * len(x) + j], x[j] + c * period(x)))))


@invariant(REPEAT, loop=1)
def repeat_inv(x, y, n, repeats, i, x__pre, y__pre):
    return (n == len(x__pre) and n >= 2 and repeats >= 1 and 1 <= i
            and is_ndarray(x) and len(x) == n * repeats
            and forall(range(repeats), lambda c: forall(range(n), lambda j:
                       x[c * n + j] == (x__pre[j] + (c * period(x__pre) if c < i else 0)))))


@hint(REPEAT, loop=1, when='head')
def repeat_hint_idx(x, n, i, x__pre):
    """index arithmetic the solver needs to instantiate the invariant at copy i-1"""
    return (n * i - 1 == (i - 1) * n + (n - 1) and n * i - 2 == (i - 1) * n + (n - 2) and 0 == 0 * n + 0
            and x[(i - 1) * n + (n - 1)] == x__pre[n - 1] + (i - 1) * period(x__pre)
            and x[(i - 1) * n + (n - 2)] == x__pre[n - 2] + (i - 1) * period(x__pre)
            and x[0 * n + 0] == x__pre[0])


@decreases(REPEAT, loop=1)
def repeat_dec(repeats, i):
    return repeats - i


# ---------------------------------------------------------------------------- truncate

contract(TRUNCATE, params=dict(x=Seq(Real), y=Seq(Real), x_left=Real, x_right=Real, x_left_as_ratio=Bool, x_right_as_ratio=Bool),
         returns=Tuple(Seq(Real), Seq(Real)))


@requires(TRUNCATE)
def truncate_pre(x, y, x_left, x_right, x_left_as_ratio, x_right_as_ratio):
    return len(x) >= 1 and len(y) == len(x) and strictly_increasing(x)


def bound(x, v, as_ratio):
    return (v * (x[len(x) - 1] - x[0]) + x[0]) if as_ratio else v


@raises(TRUNCATE, 'ValueError')
def truncate_empty(x, y, x_left, x_right, x_left_as_ratio, x_right_as_ratio):
    """empty or inverted range"""
    return bound(x, x_left, x_left_as_ratio) >= bound(x, x_right, x_right_as_ratio)


def first_kept(x, left, l):
    """l = the last sample <= left, or the first sample"""
    return (0 <= l and l < len(x)
            and ((l == 0) if left < x[0] else (x[l] <= left and forall(range(len(x)), lambda i: implies(x[i] <= left, i <= l)))))


def last_kept(x, right, r):
    """r = the first sample >= right, or the last sample"""
    return (0 <= r and r < len(x)
            and ((r == len(x) - 1) if right > x[len(x) - 1]
                 else (x[r] >= right and forall(range(len(x)), lambda i: implies(x[i] >= right, i >= r)))))


@ensures(TRUNCATE)
def truncate_post(x, y, x_left, x_right, x_left_as_ratio, x_right_as_ratio, result):
    """the smallest contiguous run covering [left, right]; x and y cut identically"""
    return exists(range(len(x)), lambda l: exists(range(len(x)), lambda r:
                  first_kept(x, bound(x, x_left, x_left_as_ratio), l)
                  and last_kept(x, bound(x, x_right, x_right_as_ratio), r)
                  and l <= r
                  and len(result[0]) == r - l + 1 and len(result[1]) == r - l + 1
                  and forall(range(r - l + 1), lambda i: result[0][i] == x[l + i] and result[1][i] == y[l + i])))


@ensures(NORMALIZE)
def normalize_formula(a, min_val, max_val, result):
    """functional form (lets callers conclude that equal inputs give equal outputs)"""
    return is_ndarray(result) and len(result) == len(a) and forall(range(len(a)), lambda i: eq(result[i], (a[i] - min_of(a)) / (max_of(a) - min_of(a)) * (max_val - min_val) + min_val))


@hint(REPEAT, scoped=True)
def repeat_hint_div(x, y, repeats, result):
    """pure arithmetic: an index below repeats*n lies in copy i div n < repeats"""
    return forall(range(repeats * len(x)), lambda i: 0 <= i // len(x) and i // len(x) < repeats
                  and 0 <= i % len(x) and i % len(x) < len(x) and (i // len(x)) * len(x) + i % len(x) == i)


@hint(REPEAT, scoped=True, uses=['repeat_hint_div'])
def repeat_hint_closed(x, y, repeats, result):
    """instances of the forward form at c = i div n, j = i mod n"""
    return forall(range(repeats * len(x)), lambda i:
                  result[0][(i // len(x)) * len(x) + i % len(x)] == x[i % len(x)] + (i // len(x)) * period(x))


@ensures(REPEAT, uses=['repeat_hint_closed'])
def repeat_closed_form(x, y, repeats, result):
    return is_ndarray(result[0]) and is_ndarray(result[1]) and len(result[0]) == repeats * len(x) and len(result[1]) == repeats * len(y) and forall(range(repeats * len(x)), lambda i: eq(result[0][i], x[i % len(x)] + (i // len(x)) * period(x)))


@ensures(REPEAT, assumed="mathematical consequence of repeat_post_x (copy c is the input shifted by c periods, period > span): "
                         "not derived by the SMT back end because it needs the div/mod decomposition of an arbitrary index "
                         "over a symbolic length; monitored at run time")
def repeat_increasing(x, y, repeats, result):
    """abscissae strictly increasing (for strictly increasing input)"""
    return implies(strictly_increasing(x), strictly_increasing(result[0]))



@hint(REPEAT, scoped=True, uses=['repeat_hint_div'])
def repeat_hint_closed_y(x, y, repeats, result):
    return forall(range(repeats * len(y)), lambda i: result[1][(i // len(y)) * len(y) + i % len(y)] == y[i % len(y)])


@ensures(REPEAT, uses=['repeat_hint_closed_y'])
def repeat_closed_form_y(x, y, repeats, result):
    return forall(range(repeats * len(y)), lambda i: result[1][i] == y[i % len(y)])
