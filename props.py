"""Property table: which functions under contract (and which of their obligations) decide each property.

`functions`: qualified names verified for the property.  `select`: optional list of (function-substring, regex) pairs;
an obligation of a matching function counts for the property only if "<kind>::<clause>" matches the regex (used to
attribute e.g. frame obligations to C09 and exceptional postconditions to C20 without reporting them twice).
"""
M = 'traffic_weaver.'
SAU = M + 'sorted_array_utils.'
PR = M + 'process.'
WV = M + 'weaver.Weaver.'
IA = M + 'interval.IntervalArray.'
MT = M + 'match.'
RF = M + 'rfa.'

A_REAL = ("A-real: float/float64 arithmetic is treated as exact real arithmetic (rounding, overflow, NaN/inf, -0.0 not "
          "modelled); every proved equality is an equality over the reals")
A_NOALIAS = "A-noalias: two distinct array parameters of one call do not share a buffer"
A_LEN = "lengths and indices are mathematical integers (no int64 overflow)"

SCANS = [SAU + 'find_closest_lower_equal_element_indices_to_values',
         SAU + 'find_closest_higher_equal_element_indices_to_values',
         SAU + 'find_closest_lower_or_higher_element_indices_to_values',
         SAU + 'find_closest_element_indices_to_values']

WEAVER_MUTATORS = [WV + m for m in (
    '__init__', 'restore_original', 'append_one_sample', 'interpolate', 'repeat', 'trend', 'shift_x', 'shift_y',
    'scale_x', 'scale_y', 'normalize_x', 'normalize_y', 'truncate_by_index', 'truncate_by_value')]
WEAVER_READERS = [WV + m for m in ('from_2d_array', 'get', 'get_original', 'get_reference', '__len__', 'slice_by_index',
                                   'slice_by_value')]

EXC = r'^(raises-if|raises-only-if|frame-on-raise|no-raise)::'
NOT_EXC_NOT_FRAME = r'^(?!raises-if|raises-only-if|frame-on-raise|frame::|class-inv)'

MATCH = [MT + '_integral_matching_stretch', MT + '_interval_integral_matching_stretch', MT + 'integral_matching_reference_stretch']
C03_CLAUSES = r'ensures::(kernel_profile|kernel_ends_fixed|kernel_idempotent|windows_frame|top_frame)'

def _mq(*fs):
    return list(fs)


PROPS = {
    'C01': dict(
        monitor_clauses=r'_rt_c01',
        monitor_quick=[MT + 'integral_matching_reference_stretch', MT + '_integral_matching_stretch', MT + '_interval_integral_matching_stretch'],
        functions=MATCH + [SAU + 'rectangle_integral', SAU + 'trapezoid_integral', SAU + 'integral', SAU + 'sum_over_indices'],
        select=[('match.', r'^(?!' + C03_CLAUSES + r')')],
        level='proof',
        explanation=("Kernel: for every window of >= 2 strictly increasing abscissae, every alpha > 0 and both rules the stretched window "
                     "integrates exactly to the target (sum lemmas SUM_LIN/SUM_POS/SUM_CONG proved by induction, power axioms); window "
                     "loop: inductive invariant over the windows (finished windows keep their integral because the shared end samples "
                     "are written back unchanged); resolution (default designation: closest / lower / higher search): the fixed "
                     "indices are the indices the C10 specification determines, targets are the reference-rule integrals of the "
                     "reference intervals; explicit designation (fixed_points_indices_in_x, or fixed_points_in_x, list or array): the "
                     "fixed indices are the designated ones, each target is the reference-rule integral between the closest reference "
                     "positions of two consecutive fixed points. All lengths, all alpha > 0, all 2x2 rule combinations, three search "
                     "strategies, all three designation modes."),
        assumptions=[A_REAL, A_LEN, "power axioms P1-P8 for POW(r, a) on non-negative bases",
                     "derived library lemmas: np.unique of a strictly increasing array is the array; np.where(np.isin(x, x.take(c)))[0] == c",
                     "derived library lemma: np.where(np.isin(x, v))[0] lists the positions in x of v[0], v[1], ... (strictly increasing x, v; "
                     "every v[j] in x); the three derived lemmas are validated differentially against the installed NumPy on every run",
                     "integer dtypes of y (the static model reads every array as real): bounded run-time monitoring only",
                     "precondition from the property's quantifier: selected fixed points distinct with >= 1 interior sample per interval",
                     "the corollary 'first to last fixed point = reference total' follows by SUM_SPLIT; it is not stated as a separate clause"],
    ),
    'C03': dict(
        monitor_quick=[MT + 'integral_matching_reference_stretch', MT + '_integral_matching_stretch', MT + '_interval_integral_matching_stretch'],
        monitor_clauses=r'_rt_c03',
        functions=MATCH,
        select=[('match.', r'^(?!ensures::(kernel_integral|windows_integrals|top_integrals))')],
        level='proof',
        explanation=("Kernel: displacement = yhat * (1 - (2|x - centre|/width)^alpha) with one yhat per window, end samples fixed when "
                     "there is an interior sample, idempotent on an already matched window; window loop and top level: samples outside "
                     "the span of the fixed points and the fixed points themselves are unchanged."),
        assumptions=[A_REAL, A_LEN, "power axioms P1-P8", "same derived library lemmas as C01",
                     "'matching a matched function changes nothing' is proved per window (kernel_idempotent); the top-level corollary is not restated"],
    ),
    'C10': dict(
        monitor_quick=SCANS,
        functions=SCANS,
        level='proof',
        explanation=("Definitional postconditions (largest element <= query / smallest >= / nearest with ties to the lower index, "
                     "fill values outside the range) proved for all lengths and all real values by three inductive invariants per scan; "
                     "the dispatcher is proved against the three callee contracts."),
        assumptions=[A_REAL, A_LEN, "ties of the 'closest' variant created by floating-point rounding of the two subtractions are outside the real model",
                     "precondition: x strictly increasing and non-empty, lookup non-decreasing and non-empty (from the property's quantifier)"],
    ),
    'C11': dict(
        monitor_quick=[PR + 'truncate', WV + 'truncate_by_value', WV + 'slice_by_value', WV + 'slice_by_index', WV + 'truncate_by_index'],
        functions=[PR + 'truncate', WV + 'truncate_by_value', WV + 'truncate_by_index', WV + 'slice_by_value', WV + 'slice_by_index'],
        select=[('', r'^(?!frame-on-raise)')],
        level='proof',
        explanation=("truncate: smallest contiguous run covering [left, right] (via the C10 contracts, not the scan bodies), ratio bounds, "
                     "x/y cut identically; Weaver: reference cut with the same bounds; slice_by_value = exactly the samples inside "
                     "[start, stop]; index variants = Python slice semantics (independent spec function py_count/py_stop)."),
        assumptions=[A_REAL, A_LEN, "truncate_by_index precondition: working and reference series have the same length and the cut is non-empty"],
    ),
    'C12': dict(
        monitor_quick=[PR + 'repeat', WV + 'repeat'],
        functions=[PR + 'repeat', WV + 'repeat'],
        level='proof',
        explanation=("repeat: r*len samples, values tiled, copy c shifted by c*(span + last step) - proved with a loop invariant over "
                     "the copies, for all lengths and all r >= 1; closed div/mod form; r = 1 is the identity and the composition law "
                     "follow from the closed form. Weaver.repeat: both series repeated, sync preserved."),
        assumptions=[A_REAL, A_LEN],
    ),
    'C13': dict(
        monitor_quick=[PR + 'interpolate', PR + '_piecewise_constant_interpolate', WV + 'interpolate'],
        functions=[PR + '_piecewise_constant_interpolate', PR + 'interpolate', WV + 'interpolate'],
        select=[('', r'^(?!frame-on-raise)')],
        level='proof',
        explanation=("Proved: method dispatch (arguments in the right positions, unknown name -> ValueError), the repository's own "
                     "'constant' interpolation completely (last sample at or before the point, first value to the left, exact at samples), "
                     "Weaver grid (n equally spaced points over the same range; explicit grid must share both end points). "
                     "ASSUMED (library contracts): numpy.interp is the piecewise-linear interpolant, CubicSpline and splrep(s=0)+BSpline "
                     "pass through every knot; 'reproduces affine data' for cubic/spline is not decided."),
        assumptions=[A_REAL, "numpy.interp / scipy CubicSpline / splrep+BSpline numerical behaviour (assumed contracts in pyvc/libcalls.py)",
                     "unknown **kwargs forwarded to the library calls are treated as absent"],
    ),
    'C14': dict(
        monitor_quick=[PR + 'trend', PR + 'linear_trend', PR + 'normalize', WV + 'trend', WV + 'scale_y', WV + 'normalize_y'],
        functions=[PR + 'trend', PR + 'linear_trend', PR + 'normalize', WV + 'trend', WV + 'shift_x', WV + 'shift_y', WV + 'scale_x',
                   WV + 'scale_y', WV + 'normalize_x', WV + 'normalize_y'],
        level='proof',
        explanation=("trend: y_i + f(x_i) resp. f(x_i/(x_last-x_first)) for an uninterpreted pure f, x untouched (loop invariant); "
                     "normalize: min->min_val, max->max_val, order and ratios of differences preserved; shift/scale pointwise on working "
                     "and reference series."),
        assumptions=[A_REAL, "A-pure: the trend callable is deterministic and side-effect free"],
    ),
    'C15': dict(
        monitor_quick=[PR + 'noise_gauss'],
        functions=[PR + 'noise_gauss', WV + 'noise'],
        level='proof',
        explanation=("Proved: numpy.random.normal is called exactly once with loc = 0, size = len(a) and scale = "
                     "sqrt(mean(a^2)/SNR) (SNR = 10^(snr/10) or snr; element-wise for array snr; std when snr is None) as a symbolic "
                     "identity; result = a + that draw. NOT decidable by contracts: Gaussianity, zero mean of the draw, seed "
                     "reproducibility, empirical SNR (properties of NumPy's generator)."),
        assumptions=[A_REAL, "numpy.random.normal returns an array of the requested size (its distribution is NumPy's)",
                     "power axioms P1-P8 on POW (real powers of non-negative bases)", "linear-scale snr > 0"],
    ),
    'C16': dict(
        monitor_quick=[PR + 'spline_smooth', WV + 'to_function', WV + 'smooth'],
        functions=[PR + 'spline_smooth', WV + 'to_function', WV + 'smooth'],
        level='proof',
        explanation=("Proved: spline_smooth forwards x, y and s unchanged to splrep (s omitted -> len(y)*std(y)^2; s = 0 is not replaced) "
                     "and builds the BSpline from exactly that result; Weaver.to_function fits the current processed series with exactly the given s; "
                     "Weaver.smooth keeps x, the length, reference and original. ASSUMED: FITPACK's smoothing condition and interpolation "
                     "at s = 0. BOUNDED: the smoothing condition itself is monitored numerically at run time (non-converged FITPACK runs "
                     "discarded), including over operation histories that call to_function repeatedly."),
        assumptions=[A_REAL, "scipy splrep/BSpline: sum((y-g(x))^2) <= s(1+tol), interpolation for s = 0 (assumed library contract)"],
    ),
    'C17': dict(
        monitor_quick=[SAU + 'oversample_linspace', SAU + 'oversample_piecewise_constant', SAU + 'extend_linspace', SAU + 'extend_constant', SAU + 'append_one_sample', PR + 'average', IA + 'to_2d_array', IA + '__setitem__'],
        functions=[SAU + f for f in ('append_one_sample', 'oversample_linspace', 'oversample_piecewise_constant', 'extend_linspace',
                                     'extend_constant', 'rectangle_integral', 'trapezoid_integral', 'integral', 'sum_over_indices')]
        + [IA + m for m in ('__init__', '__getitem__', '__setitem__', 'nr_of_full_intervals', '__len__', 'to_2d_array')]
        + [PR + 'average'],
        level='proof',
        explanation=("Index-form postconditions of every helper (n-fold oversampling keeps originals at every n-th position, linear / "
                     "left-value fill; extension adds exactly n per side; append continues by the last step), the interval view "
                     "[i, j] -> i*n+j for loads and stores, row-major layout with NaN exactly on the padding, block average = mean of "
                     "the non-padding entries + first abscissa of each row; all for symbolic lengths and n."),
        assumptions=[A_REAL, A_LEN, "NumPy array-algebra contracts (linspace, flatten, repeat, insert, pad, reshape, nanmean, ...)"],
    ),
    'C02': dict(
        monitor_quick=['rt:weaver.pipeline'],
        functions=[WV + '__init__', WV + 'recreate_from_average', WV + 'integral_match',
                   'lemma:weaver.recreate_then_match_preserves_averages', 'lemma:weaver.block_average_returns_original', PR + 'average']
        # the functions the composition rests on are re-verified in this check as well (same obligations as in C01 / C10)
        + MATCH + [SAU + 'rectangle_integral', SAU + 'trapezoid_integral', SAU + 'integral', SAU + 'sum_over_indices',
                   SAU + 'find_closest_element_indices_to_values', SAU + 'find_closest_lower_or_higher_element_indices_to_values'],
        select=[('match.', r'^(?!' + C03_CLAUSES + r')')],
        level='proof',
        explanation=("Composition of contracts: Weaver.__init__ keeps the original as reference; recreate_from_average (verified against "
                     "the strategy PROTOCOL - grid_ok - which C04 proves for the five own strategies) makes the processed abscissae the "
                     "n-fold grid over the reference abscissae and leaves the reference alone; integral_match (calls the C01 top-level "
                     "contract) makes every reference interval integrate, under the target rule, to the rectangle integral of the "
                     "reference; lemma 1: the closest sample to an original abscissa is the grid sample that equals it, hence the "
                     "matched series integrates over every original interval to average * width; lemma 2 (rectangle rule, SUM_SCALE): "
                     "the mean of each block of n samples is the original average and each block starts at the original abscissa "
                     "(what process.average returns, C17). All m, n >= 2, both rules, symbolic data. BOUNDED: the whole pipeline on the "
                     "real code for all six strategies, periodic extension and bundled datasets is monitored at run time."),
        assumptions=[A_REAL, A_LEN, "strategy values play no role (any finite values on the grid are matched); the spline strategy satisfies the "
                     "protocol at run time only", "A-kwargs: **kwargs forwarded by Weaver.integral_match / recreate_from_average contain only "
                     "keywords the callee accepts"],
    ),
    'C04': dict(
        monitor_clauses=r'_rt_c04',
        monitor_quick=[RF + c + '.rfa' for c in ('PiecewiseConstantRFA', 'FunctionRFA', 'CubicSplineRFA', 'LinearFixedRFA', 'ExpFixedRFA', 'LinearAdaptiveRFA', 'ExpAdaptiveRFA')],
        functions=[RF + 'AbstractRFA.__init__'] + [RF + c + '.__init__' for c in ('LinearFixedRFA', 'ExpFixedRFA', 'LinearAdaptiveRFA', 'ExpAdaptiveRFA')]
        + [RF + c + '.rfa' for c in ('PiecewiseConstantRFA', 'FunctionRFA', 'LinearFixedRFA', 'ExpFixedRFA', 'LinearAdaptiveRFA', 'ExpAdaptiveRFA')]
        + [RF + 'LinearAdaptiveRFA.get_adaptive_transition_points']
        + [SAU + f for f in ('oversample_linspace', 'oversample_piecewise_constant', 'extend_linspace', 'extend_constant')]
        + [IA + m for m in ('__init__', '__getitem__', '__setitem__', 'nr_of_full_intervals')],
        level='proof',
        explanation=("Protocol clause `grid_ok` (two ndarrays of exactly (m-1)*n+1 samples, every n-th abscissa an original one, linear "
                     "spacing in between) proved as the postcondition of each strategy's rfa() for symbolic m and n; the constructors "
                     "raise ValueError exactly when n < 2."),
        assumptions=[A_REAL, A_LEN],
    ),
    'C05': dict(
        monitor_clauses=r'_rt_c05',
        monitor_quick=[RF + c + '.rfa' for c in ('ExpFixedRFA', 'LinearAdaptiveRFA', 'ExpAdaptiveRFA', 'CubicSplineRFA', 'LinearFixedRFA')],
        functions=[RF + 'LinearFixedRFA.rfa', RF + 'ExpFixedRFA.rfa', RF + 'PiecewiseConstantRFA.rfa', 'lemma:rfa.linear_fixed.bounds',
                   'lemma:rfa.linear_fixed.monotone', 'lemma:rfa.exp_fixed.bounds', RF + 'LinearAdaptiveRFA.get_adaptive_transition_points',
                   RF + 'LinearAdaptiveRFA.rfa', 'lemma:rfa.linear_adaptive.bounds', RF + 'ExpAdaptiveRFA.rfa', 'lemma:rfa.exp_adaptive.bounds']
        + [RF + c + '.__init__' for c in ('LinearFixedRFA', 'ExpFixedRFA', 'LinearAdaptiveRFA', 'ExpAdaptiveRFA')],
        level='proof',
        explanation=("PROVED for all four window strategies and PiecewiseConstantRFA, all series (ties included) / spacings / n / windows / "
                     "linear share / exponent > 0 / adaptive smoothing > 0: the code computes the closed forms fv, fe, fa, fea "
                     "(postconditions linf_values, expf_values, lina_values, expa_values; loop invariants over the extended grid; adaptive "
                     "windows as specification functions of the averages); lemmas over the closed forms: plateau at the average between "
                     "the windows, every transition sample between the interval's average and the neighbour's on its side (power blends "
                     "via the power axioms), fixed windows: at most a-1 samples differ, LinearFixed: monotone steps; window fields of all "
                     "constructors; adaptive window sizes within 0..a. BOUNDED (run-time monitoring, not proof): monotonicity of the "
                     "exponent blends (known finding for exponents < 0.133), the a-1 count for the adaptive strategies, the spline strategy."),
        assumptions=[A_REAL, A_LEN, "power axioms P1-P8 for POW(r, a)", "CubicSplineRFA, monotonicity of the exponent blends and the a-1 count of the adaptive strategies: bounded run-time monitoring only",
                     "SciPy CubicSpline: assumed interpolating (trusted dependency)"],
    ),
    'C06': dict(
        monitor_clauses=r'_rt_c06',
        monitor_quick=[RF + c + '.rfa' for c in ('ExpFixedRFA', 'LinearAdaptiveRFA', 'ExpAdaptiveRFA', 'LinearFixedRFA')],
        functions=[M + 'funfit.' + f for f in ('lin_fit', 'exp_fit', 'exp_xy_fit', 'exp_lin_fit', 'lin_exp_xy_fit')]
        + [RF + 'LinearFixedRFA.rfa', RF + 'ExpFixedRFA.rfa', 'lemma:rfa.exp_fixed.bounds', RF + 'LinearAdaptiveRFA.get_adaptive_transition_points',
           RF + 'LinearAdaptiveRFA.rfa', RF + 'ExpAdaptiveRFA.rfa']
        + [RF + c + '.__init__' for c in ('LinearFixedRFA', 'ExpFixedRFA', 'LinearAdaptiveRFA', 'ExpAdaptiveRFA')],
        level='proof',
        explanation=("PROVED: the five shape functions equal their closed forms for every exponent and hit both end points; "
                     "LinearFixedRFA: border value = straight line between the plateau ends of the adjacent intervals taken at the "
                     "border, transition samples on the straight line between border value and plateau (closed form fv for symbolic m, "
                     "n, window); adaptive windows: the four cases of the split (both / one / no neighbour differing), trunc-clip "
                     "formula with gamma = (right jump / left jump)^smooth, and for smooth = 1 the side with the larger jump never "
                     "gets the larger window; ExpFixedRFA: the code computes the closed form fe (linear piece, linear/power blend with the "
                     "given exponent, plateau, power/linear blend, linear piece), whose first sample is the border value; LinearAdaptiveRFA and "
                     "ExpAdaptiveRFA: the same closed forms with the per-interval windows wl / wr (and linear shares trunc(beta*w)) applied, "
                     "including the tie branches. The run-time monitors remain as a cross-check of the specification against the code."),
        assumptions=[A_REAL, A_LEN, "power axioms P1-P8 for POW(r, a)"],
    ),
    'C07': dict(
        monitor_clauses=r'_rt_c07',
        monitor_quick=[RF + c + '.rfa' for c in ('PiecewiseConstantRFA', 'LinearFixedRFA', 'ExpFixedRFA', 'LinearAdaptiveRFA', 'ExpAdaptiveRFA', 'CubicSplineRFA')],
        functions=[RF + 'LinearFixedRFA.rfa', RF + 'PiecewiseConstantRFA.rfa', 'lemma:rfa.linear_fixed.equivariance_y', 'lemma:rfa.linear_fixed.equivariance_x',
                   'lemma:rfa.linear_fixed.locality', RF + 'ExpFixedRFA.rfa', 'lemma:rfa.exp_fixed.locality', 'lemma:rfa.exp_fixed.equivariance_y', 'lemma:rfa.exp_fixed.equivariance_x', RF + 'LinearAdaptiveRFA.rfa',
                   'lemma:rfa.linear_adaptive.locality', 'lemma:rfa.linear_adaptive.equivariance_y', 'lemma:rfa.linear_adaptive.equivariance_x', RF + 'ExpAdaptiveRFA.rfa',
                   'lemma:rfa.exp_adaptive.locality', 'lemma:rfa.exp_adaptive.equivariance_y', 'lemma:rfa.exp_adaptive.equivariance_x',
                   RF + 'LinearAdaptiveRFA.get_adaptive_transition_points'],
        level='proof',
        explanation=("PROVED for LinearFixedRFA (relational lemmas over the closed form the code is proved to compute, two strategy "
                     "objects on related data): y -> al*y + be and x -> c*x + d (c > 0) commute with recreation for all real al, be, c, d "
                     "(hence an affine map of the averages with weights summing to one); a value of an interval reads only that "
                     "interval's and the two adjacent averages; ExpFixedRFA: locality, change of units x -> c*x+d (c > 0; the pieces read the abscissae through ratios only) and y -> al*y+be for all real al, be and every exponent "
                     "(the blends are affine in their end values with weights summing to one; powers are atoms because the abscissae do not change); LinearAdaptiveRFA: change of units x -> c*x+d (c > 0) and y -> al*y+be for every real "
                     "al != 0 (intervals with two neighbours on each side) and locality with two neighbours; ExpAdaptiveRFA: locality with two "
                     "neighbours and change of units x -> c*x+d (c > 0) and y -> al*y+be (al != 0), both on intervals with two neighbours on each side; adaptive windows are computed from absolute jumps with exact zero tests only. PiecewiseConstantRFA: values are "
                     "the averages themselves. BOUNDED "
                     "(run-time metamorphic monitoring with exactly representable maps, one-average perturbations): CubicSplineRFA, and the "
                     "first / last two intervals of the adaptive strategies."),
        assumptions=[A_REAL, A_LEN, "non-negativity of the weights is the C05 bounds lemma; CubicSplineRFA and the boundary intervals of the adaptive strategies (fewer than two neighbours on one side): bounded run-time monitoring only"],
    ),
    'C08': dict(
        monitor_quick=WEAVER_MUTATORS,
        # the ten domain operations transform both series alike; the reshaping operations (recreate, match, smooth, noise,
        # interpolate) leave the reference alone
        functions=WEAVER_MUTATORS + [WV + m for m in ('recreate_from_average', 'integral_match', 'smooth', 'noise')],
        select=[('', r'(sync|ensures::(?!restore_like_new))')],
        level='proof',
        explanation=("Invariant rule over histories: `in_sync` (working == reference) is established by the constructor and preserved by "
                     "each of the ten domain operations, whose two-state postconditions state that both series are transformed by the "
                     "same map; every reshaping operation leaves the reference unchanged. No bound on the history length."),
        assumptions=[A_REAL],
    ),
    'C09': dict(
        monitor_quick=WEAVER_MUTATORS + [PR + 'trend'],
        functions=WEAVER_MUTATORS + WEAVER_READERS + [WV + m for m in ('recreate_from_average', 'integral_match', 'smooth', 'noise')]
        + [PR + 'trend', PR + 'noise_gauss'] + MATCH,
        select=[('weaver.Weaver', r'^(class-inv|frame::|ensures::restore|ensures::init_post|no-raise)'), ('process.trend', r'^frame::'),
                ('process.noise_gauss', r'^(frame::|no-raise)'), ('match.', r'^(no-raise|frame::|hint|lemma-pre)')],
        level='proof',
        explanation=("Class invariant (six ndarray fields, equal lengths >= 1, strictly increasing abscissae) established by the "
                     "constructor and preserved by every method under its precondition; frame rule: no buffer that existed before a "
                     "call (caller arrays, original_*) is written in place; restore_original re-establishes the state of a new object."),
        assumptions=[A_REAL, A_NOALIAS],
    ),
    'C18': dict(
        functions=[M + 'datasets._base.load_dataset', M + 'datasets._base.get_data_home'],
        driver='datasets',
        level='proof',
        explanation=("Finite configuration space enumerated completely: the four shipped description tables are parsed on every run "
                     "(95 names) and load_dataset is executed symbolically for every name, its '-'/'_' spelling variants and both "
                     "values of the unpack flag against the contracts of the two generic loading routines; the recorded calls give "
                     "url / checksum / remote file / cache slot per dataset and the distinctness obligations are decided over them. "
                     "For a symbolic name: ValueError iff the derived loader name is not bound in the aggregation module (z3 strings). "
                     "get_data_home returns $TRAFFIC_WEAVER_DATA when set. The 19 bundled files are checked by exhaustive native "
                     "evaluation of the run-time contract (finite (k,2) float array, strictly increasing first column, unpack = columns) - "
                     "evaluation, not proof."),
        assumptions=["the two generic loading routines are represented by their contracts (verified separately: C19)",
                     "process environment is a fixed map during a call; os.path.join on relative components",
                     "content of the bundled CSV files: checked by evaluation on every run (exhaustive, 19 files)"],
    ),
    'C19': dict(
        functions=[M + 'datasets._base._sha256', M + 'datasets._base._fetch_remote', M + 'datasets._base.load_csv_dataset_from_remote'],
        driver='datasets',       # independence of datasets = distinct cache slots / files: the C18 enumeration is part of this check too
        level='proof',
        explanation=("Ghost file system + network counter (pyvc/oslib.py). Proved on the real code: (a) _sha256 digests exactly the bytes "
                     "of the file (loop invariant over z3 strings); (b) _fetch_remote returns only after a successful download, makes "
                     "at most n_retries+1 network accesses, absorbs only URLError/TimeoutError, terminates, and raises OSError iff the "
                     "SHA-256 of the payload differs from the pinned one; (c) CRASH/EXCEPTION INVARIANT: after EVERY statement of "
                     "load_csv_dataset_from_remote and on EVERY exceptional edge the cache entry is absent or a complete copy of "
                     "verified data (the only write to it is the atomic rename of a complete, verified file); (d) a cached dataset "
                     "is served without network access and what is returned is exactly unpickle(entry); (e) rely/guarantee: every "
                     "file-system action stays below the function's own fresh temporary directory or is that rename - the invariant "
                     "is stable under these actions, hence under any number of concurrent loaders; (f) independence of datasets: "
                     "(d) + distinct cache slots (C18)."),
        assumptions=["ASSUMED OS/stdlib contracts: os.rename is atomic (POSIX); TemporaryDirectory yields a fresh directory removed on every edge; "
                     "urlretrieve leaves a complete file or raises leaving it absent/partial; pickle.dump completes or leaves a partial "
                     "file, the unreferenced file object is closed at the end of the statement (CPython refcounting); "
                     "pickle.load(pickle.dump(d)) = d; SHA-256 is treated as injective (collision-freeness)",
                     "A-paths: syntactically different path terms denote different files",
                     "a process kill inside a library call is represented by that call's failure outcomes (absent/partial target)",
                     "real kernel scheduling is not observed: (e) is a proof about the contracts",
                     "validate_checksum=True (all 76 loaders pass it: C18 obligation validate-checksum-on); unpack flag False"],
    ),
    'C20': dict(
        monitor_quick=[WV + 'truncate_by_value', WV + 'slice_by_value', WV + 'interpolate', WV + 'slice_by_index', PR + 'interpolate'],
        functions=[WV + m for m in ('__init__', 'from_2d_array', 'slice_by_index', 'slice_by_value', 'interpolate', 'truncate_by_index',
                                    'truncate_by_value')] + [PR + 'truncate', PR + 'interpolate', SAU + 'integral',
                                                             SAU + 'find_closest_element_indices_to_values'] + MATCH,
        select=[('', EXC)],
        level='proof',
        explanation=("Exceptional postconditions: each entry point raises ValueError exactly under the stated condition (no other "
                     "exception class can escape), and on the exceptional edge every field of the Weaver is bound to the same, "
                     "unmodified buffer."),
        assumptions=[A_REAL],
    ),
}
