"""Run-time only (bounded stand-in): numeric readings of C05 - C07 for the strategies whose values are not (yet) proved
statically.  Used by `assumed=` clauses of contracts/rfa.py, i.e. evaluated by pyvc.rt_runner on generated inputs; never by
the verifier.  Everything here is labelled *bounded* in the evidence."""
import copy

import numpy as np

TOL = 1e-7


def _close(a, b):
    return abs(a - b) <= TOL * (1 + abs(a) + abs(b))


def _between(v, a, b):
    lo, hi = (a, b) if a <= b else (b, a)
    s = TOL * (1 + abs(a) + abs(b))
    return lo - s <= v <= hi + s


def finite(result):
    return bool(np.all(np.isfinite(np.asarray(result[0], dtype=float))) and np.all(np.isfinite(np.asarray(result[1], dtype=float))))


def shape_ok(self, result, adaptive):
    """C05: per interval a (possibly empty) run of transition samples at each border, a plateau at the average in between; at
    most a-1 samples differ from the average; transition values lie between the interval's average and the neighbour's average on
    that side and move monotonically to the plateau"""
    y = np.asarray(self.y, dtype=float)
    r = np.asarray(result[1], dtype=float)
    n, m, a = self.n, len(y), self.a
    if a > n:
        return True                      # outside the documented range (window larger than the interval)
    for q in range(m - 1):
        seg = r[q * n:(q + 1) * n]
        diff = [not _close(v, y[q]) for v in seg]
        p = 0
        while p < n and diff[p]:
            p += 1
        s = 0
        while s < n - p and diff[n - 1 - s]:
            s += 1
        if any(diff[p:n - s]):
            return False                 # a value off the average inside the plateau
        if p + s > max(a - 1, 0) and not (adaptive and p + s <= a):
            return False
        left = y[q - 1] if q > 0 else y[0]
        right = y[q + 1]
        whole = p == n
        for j in range(p):
            if not (_between(seg[j], y[q], left) or (whole and _between(seg[j], y[q], right))):
                return False
        for j in range(n - s, n):
            if not _between(seg[j], y[q], right):
                return False
        if not whole:
            for j in range(p - 1):       # monotone towards the plateau
                if abs(seg[j + 1] - y[q]) > abs(seg[j] - y[q]) + TOL * (1 + abs(seg[j])):
                    return False
            for j in range(n - s, n - 1):
                if abs(seg[j] - y[q]) > abs(seg[j + 1] - y[q]) + TOL * (1 + abs(seg[j])):
                    return False
    return _between(r[(m - 1) * n], y[m - 2], y[m - 1])      # the last sample is the border value towards the last average


def constant_ok(self, result):
    y = np.asarray(self.y, dtype=float)
    return bool(np.allclose(np.asarray(result[1], dtype=float), y[0], rtol=1e-9, atol=1e-9)) if np.all(y == y[0]) else True


def fixed_border_ok(self, result):
    """C06 (fixed windows): the value at each interior border is the linear interpolation, at the border, between the plateau ends
    of the two adjacent intervals"""
    x = np.asarray(self.x, dtype=float)
    y = np.asarray(self.y, dtype=float)
    xs = np.asarray(result[0], dtype=float)
    r = np.asarray(result[1], dtype=float)
    n, m, a_l, a_r = self.n, len(y), self.a_l, self.a_r
    if self.a > n:
        return True
    for q in range(1, m - 1):
        x0, x1 = xs[q * n - a_r], xs[q * n + a_l]
        b = y[q - 1] + (y[q] - y[q - 1]) * (xs[q * n] - x0) / (x1 - x0)
        if not _close(r[q * n], b):
            return False
    return True


def _rerun(self, x, y):
    o = copy.copy(self)
    o.x = np.asarray(x, dtype=float)
    o.y = np.asarray(y, dtype=float)
    return o.rfa()


def equivariant(self, result):
    """C07: y -> al*y + be, x -> c*x + d (exactly representable maps) commute with recreation"""
    x = np.asarray(self.x, dtype=float)
    y = np.asarray(self.y, dtype=float)
    r0, r1 = np.asarray(result[0], dtype=float), np.asarray(result[1], dtype=float)
    # the last two maps make the differences between averages tiny relative to their magnitude / tiny in absolute terms
    for al, be, c, d in ((2.0, 3.0, 1.0, 0.0), (-4.0, 1.0, 1.0, 0.0), (1.0, 0.0, 2.0, -1.0), (0.5, -2.0, 4.0, 8.0),
                         (1.0, float(2 ** 23), 1.0, 0.0), (float(2 ** -30), 0.0, 1.0, 0.0)):
        s0, s1 = _rerun(self, c * x + d, al * y + be)
        s0, s1 = np.asarray(s0, dtype=float), np.asarray(s1, dtype=float)
        if s0.shape != r0.shape or s1.shape != r1.shape:
            return False
        if not np.allclose(s0, c * r0 + d, rtol=1e-9, atol=1e-9) or not np.allclose(s1, al * r1 + be, rtol=1e-7, atol=1e-7 * abs(al)):
            return False
    return True


def local(self, result, reach):
    """C07: changing one average changes recreated values only in that interval and `reach` neighbours on each side"""
    x = np.asarray(self.x, dtype=float)
    y = np.asarray(self.y, dtype=float)
    r1 = np.asarray(result[1], dtype=float)
    n, m = self.n, len(y)
    for p in range(m):
        y2 = y.copy()
        y2[p] += 1.0
        s1 = np.asarray(_rerun(self, x, y2)[1], dtype=float)
        if s1.shape != r1.shape:
            return False
        for q in range(m - 1):
            if abs(q - p) > reach and not np.allclose(s1[q * n:(q + 1) * n], r1[q * n:(q + 1) * n], rtol=1e-9, atol=1e-9):
                return False
    return True


def spline_through_points(self, result):
    y = np.asarray(self.y, dtype=float)
    r = np.asarray(result[1], dtype=float)
    return all(_close(r[q * self.n], y[q]) for q in range(len(y)))


def linear(self, result):
    """C07: the non-adaptive strategies act linearly on the values: R(2u - 3v) == 2 R(u) - 3 R(v), for v = u with one average
    changed (first, last, middle) - in particular across series that do / do not have equal first and last values"""
    x = np.asarray(self.x, dtype=float)
    u = np.asarray(self.y, dtype=float)
    ru = np.asarray(result[1], dtype=float)
    for p in sorted({0, len(u) - 1, len(u) // 2}):
        v = u.copy()
        v[p] += 1.0
        rv = np.asarray(_rerun(self, x, v)[1], dtype=float)
        rw = np.asarray(_rerun(self, x, 2 * u - 3 * v)[1], dtype=float)
        if rv.shape != ru.shape or rw.shape != ru.shape or not np.allclose(rw, 2 * ru - 3 * rv, rtol=1e-7, atol=1e-7):
            return False
    return True
