"""second way of running the same solver: z3 through its Python API in a child process (hard wall-clock limit enforced by
the parent).  The API's default solver configuration differs from the command-line front end's; some queries are decided
by one and not by the other.  usage: python3-vt -m pyvc.z3worker <file.smt2> <timeout_ms> <seed>"""
import sys

import z3


def main():
    path, timeout_ms, seed = sys.argv[1], int(sys.argv[2]), int(sys.argv[3])
    opt = sys.argv[4] if len(sys.argv) > 4 else ""
    if seed:
        z3.set_param("smt.random_seed", seed)
    s = z3.Solver()
    s.set("timeout", timeout_ms)
    if opt == "nombqi":
        s.set("smt.mbqi", False)
    s.from_file(path)
    r = s.check()
    print(r)
    if r == z3.sat:
        try:
            m = s.model()
            print("\n".join(f"{d.name()} = {m[d]}" for d in m.decls() if d.arity() == 0)[:6000])
        except Exception:
            pass


if __name__ == "__main__":
    main()
