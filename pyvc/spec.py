"""Contract vocabulary: registry, type descriptors and the *run-time* reading of the
spec functions (forall, implies, ...).  This module imports neither z3 nor numpy at
import time, so the same contract files are importable by

  * the verifier (python3-vt): it never calls the clause functions, it re-parses the
    contract *file* with `ast` and compiles each clause's single `return` expression;
  * the replay / monitoring runner (/venv/bin/python): it calls the clause functions on
    real NumPy values.
"""
import math

# --------------------------------------------------------------------------- types


class T:
    """Type/shape descriptor of a parameter or result."""

    def __init__(self, tag, *args, **kw):
        self.tag = tag
        self.args = args
        self.kw = kw

    def __repr__(self):
        a = ", ".join([repr(x) for x in self.args] + [f"{k}={v!r}" for k, v in self.kw.items()])
        return f"{self.tag}({a})" if a else self.tag


Real = T("Real")
Int = T("Int")
Bool = T("Bool")
Str = T("Str")
NoneT = T("None")
Any = T("Any")          # opaque value; only passed around


def Seq(elem=Real, kind="ndarray", **kw):
    """1-D sequence.  kind: 'ndarray' (float64/int64 ndarray), 'list', or 'arraylike'
    (ndarray-or-list, float64-or-not: both flags symbolic)."""
    return T("Seq", elem, kind=kind, **kw)


def Seq2(elem=Real):
    return T("Seq2", elem)


def Opt(t):
    return T("Opt", t)


def Tuple(*ts):
    return T("Tuple", *ts)


def Fn(nargs=1):
    """Pure deterministic callable Real^n -> Real (assumption A-pure)."""
    return T("Fn", nargs)


def Obj(cls, **fields):
    return T("Obj", cls, **fields)


def Const(v):
    return T("Const", v)


def OneOf(*vs):
    return T("OneOf", *vs)


# ------------------------------------------------------------------------ registry

REGISTRY = {}


class FunContract:
    def __init__(self, qual):
        self.qual = qual
        self.params = None          # dict name -> T  (ordered)
        self.returns = None
        self.requires = []          # (name, file)
        self.ensures = []
        self.raises = {}            # exc name -> clause name ('iff' semantics)
        self.raises_only = set()    # exception classes that may escape without condition
        self.invariants = {}        # loop ordinal -> [clause names]
        self.decreases = {}
        self.modifies = []          # names of params whose buffers may be written
        self.lemmas = []            # list of (at, clause name)
        self.hints = {}             # (loop ordinal|'return', when) -> [clause names]
        self.opts = {}
        self.funcs = {}             # clause name -> python function (runtime reading)
        self.file = None


def _c(qual):
    if qual not in REGISTRY:
        REGISTRY[qual] = FunContract(qual)
    return REGISTRY[qual]


def contract(qual, params=None, returns=None, modifies=(), raises_only=(), **opts):
    c = _c(qual)
    c.params = params
    c.returns = returns
    c.modifies = list(modifies)
    c.raises_only = set(raises_only)
    c.opts.update(opts)
    return c


def _reg(kind, qual, **kw):
    def deco(fn):
        c = _c(qual)
        c.funcs[fn.__name__] = fn
        if kind == "requires":
            c.requires.append(fn.__name__)
        elif kind == "ensures":
            c.ensures.append(fn.__name__)
        elif kind == "raises":
            c.raises[kw["exc"]] = fn.__name__
        elif kind == "invariant":
            c.invariants.setdefault(kw["loop"], []).append(fn.__name__)
        elif kind == "decreases":
            c.decreases[kw["loop"]] = fn.__name__
        elif kind == "lemma":
            c.lemmas.append((kw.get("at"), fn.__name__))
        return fn
    return deco


def requires(qual):
    return _reg("requires", qual)


def ensures(qual, static_only=False, uses=(), assumed=None, export=True):
    """static_only: the clause talks about ghost state of assumed library models (spline source, call records) that does
    not exist at run time; it is discharged by the verifier but skipped by the run-time monitor"""
    def deco(fn):
        _reg("ensures", qual)(fn)
        if static_only:
            _c(qual).opts.setdefault("static_only", set()).add(fn.__name__)
        if uses:
            _c(qual).opts.setdefault("uses", {})[fn.__name__] = list(uses)
        if not export:
            # proved for the function itself, but not handed to callers (keeps the callers' queries small)
            _c(qual).opts.setdefault("no_export", set()).add(fn.__name__)
        if assumed:
            # NOT discharged for the function itself: a stated assumption (with its reason), available to callers,
            # listed in every evidence file that depends on it and monitored at run time
            _c(qual).opts.setdefault("assumed", {})[fn.__name__] = assumed
        return fn
    return deco


def raises(qual, exc, only_if=False):
    """exceptional postcondition: `exc` escapes iff the clause holds (only_if=True: the clause is necessary, not sufficient)"""
    def deco(fn):
        _reg("raises", qual, exc=exc)(fn)
        if only_if:
            _c(qual).opts.setdefault("raises_only_if", set()).add(exc)
        return fn
    return deco


def invariant(qual, loop):
    return _reg("invariant", qual, loop=loop)


def decreases(qual, loop):
    return _reg("decreases", qual, loop=loop)


def lemma(qual, at=None):
    return _reg("lemma", qual, at=at)


def hint(qual, loop=None, when="head", scoped=False, uses=(), before=None, optional=False):
    """an assertion the verifier proves at the given point and may use afterwards (Dafny-style `assert`):
    loop=k, when='head' (after assuming the invariant) | 'end' (before re-establishing it) | 'exit';
    loop=None: before the postconditions at every return."""
    def deco(fn):
        c = _c(qual)
        c.funcs[fn.__name__] = fn
        if optional:
            # the hint is skipped (it is only a proof step) at a matching statement where one of its names is not bound
            c.opts.setdefault("optional_hints", set()).add(fn.__name__)
        if before is not None:
            # proved (and then available) immediately before the first statement whose source text contains `before`
            c.hints.setdefault(("before", before), []).append(fn.__name__)
            return fn
        c.hints.setdefault((loop if loop is not None else ("entry" if when == "entry" else "return"), "head" if when == "entry" else when), []).append(fn.__name__)
        if scoped:
            c.opts.setdefault("scoped", set()).add(fn.__name__)
        if uses:
            c.opts.setdefault("uses", {})[fn.__name__] = list(uses)
        return fn
    return deco


# ---------------------------------------------------- run-time reading of the vocabulary

RTOL = 1e-7
ATOL = 1e-7


def forall(rng, pred):
    return all(pred(i) for i in rng)


def exists(rng, pred):
    return any(pred(i) for i in rng)


def implies(a, b):
    return (not a) or bool(b)


def iff(a, b):
    return bool(a) == bool(b)


def eq(a, b):
    """Equality of reals: exact for the verifier, tolerance at run time (A-real)."""
    a = float(a)
    b = float(b)
    if a == b:
        return True
    if math.isnan(a) or math.isnan(b):
        return False
    return abs(a - b) <= ATOL + RTOL * max(abs(a), abs(b))


def le(a, b):
    return float(a) <= float(b) or eq(a, b)


def lt(a, b):
    return float(a) < float(b) and not eq(a, b)


def ite(c, a, b):
    return a if c else b


def sum_range(lo, hi, f):
    s = 0.0
    for i in range(lo, hi):
        s += f(i)
    return s


def strictly_increasing(a):
    return all(a[i] < a[i + 1] for i in range(len(a) - 1))


def non_decreasing(a):
    return all(a[i] <= a[i + 1] for i in range(len(a) - 1))


def is_ndarray(a):
    import numpy as np
    return isinstance(a, np.ndarray)


def is_none(a):
    return a is None


def pw(r, a):
    """real power on a non-negative base"""
    return float(r) ** float(a)


def trunc(r):
    return int(r)


def absr(r):
    return abs(r)


# ------------------------------------------------------------------ classes

CLASSES = {}


class ClassShape:
    def __init__(self, qual, fields):
        self.qual = qual
        self.fields = fields
        self.invariants = []
        self.funcs = {}
        self.file = None


def class_shape(qual, **fields):
    CLASSES[qual] = ClassShape(qual, fields)
    return CLASSES[qual]


def class_invariant(qual):
    def deco(fn):
        CLASSES[qual].invariants.append(fn.__name__)
        CLASSES[qual].funcs[fn.__name__] = fn
        return fn
    return deco


Kwargs = T("Kwargs")


def now(x):
    """post-state reading of a mutable argument (run-time: the monitor rebinds this)"""
    return _NOW.get(id(x), x)


_NOW = {}


def it_pos(it):
    raise NotImplementedError("ghost: iterator position (static reading only)")


def is_f64(a):
    import numpy as np
    return isinstance(a, np.ndarray) and a.dtype == np.float64


def same_len(a, b):
    return len(a) == len(b)


def Union(*ts):
    return T("OneOfT", *ts)


def nan_at(m, r, c):
    import math
    return math.isnan(float(m[r][c]))


def same_object(a, b):
    return a is b


def ncols(m):
    return m.shape[1]


def is_tuple(v):
    return isinstance(v, tuple)


def is_seq(v):
    import numpy as np
    return isinstance(v, (list, tuple, np.ndarray))


def std_of(a):
    import numpy as np
    return float(np.std(a))


_GHOST = {"normal_calls": []}


def n_normal_calls():
    return len(_GHOST["normal_calls"])


def normal_loc(k):
    return _GHOST["normal_calls"][k]["loc"]


def normal_scale(k):
    return _GHOST["normal_calls"][k]["scale"]


def normal_size(k):
    s = _GHOST["normal_calls"][k]["size"]
    return s[0] if isinstance(s, tuple) else s


def normal_result(k):
    return _GHOST["normal_calls"][k]["result"]


def is_2d(a):
    import numpy as np
    return isinstance(a, np.ndarray) and a.ndim == 2


def Class(qual):
    return T("Class", qual)


def min_of(a):
    import numpy as np
    return float(np.min(a))


def max_of(a):
    import numpy as np
    return float(np.max(a))


def _lemma_rt(*args):
    """run-time reading of a lemma application: lemmas are proved statically, nothing to evaluate"""
    return True


SUM_NONNEG = SUM_POS = SUM_CONG = SUM_SPLIT = SUM_SHIFT = SUM_LIN = SUM_CONST = SUM_SCALE = ARR_MONO = MINMAX_EXT = SUM_CONG_RANGE = _lemma_rt


def index_of(x, v):
    import numpy as np
    hits = np.where(np.asarray(x) == v)[0]
    return int(hits[0]) if len(hits) else -1


def seq_of(n, f):
    return [f(i) for i in range(n)]


def arr_of(seq):
    return seq

MINMAX_EXT_IMP = _lemma_rt


def nearest(x, v, strategy):
    """index of the sample of strictly increasing x selected for v: 'lower' = last <= v (or 0), 'higher' = first >= v (or last),
    'closest' = nearest, ties to the lower one"""
    import numpy as np
    x = np.asarray(x, dtype=float)
    if strategy == 'lower':
        k = int(np.searchsorted(x, v, side='right')) - 1
        return max(k, 0)
    if strategy == 'higher':
        k = int(np.searchsorted(x, v, side='left'))
        return min(k, len(x) - 1)
    d = np.abs(x - v)
    return int(np.argmin(d))


def known_loader(dataset):
    import traffic_weaver.datasets._datasets as m
    name = ("load_" if dataset.startswith("sandvine") else "fetch_") + dataset.replace("-", "_")
    return hasattr(m, name)


def env_is_set(name):
    import os
    return name in os.environ


def env_value(name):
    import os
    return os.environ.get(name)


def expanduser(p):
    import os
    return os.path.expanduser(p)


def Named(tname, **fields):
    return T("Named", tname, **fields)


# ghost vocabulary of the file-system / network model (static reading only; see pyvc/oslib.py)
def _ghost_rt(*a):
    raise NotImplementedError("ghost file-system vocabulary has no run-time reading")


fs_kind = fs_content = fs0_kind = fs0_content = net_calls = net_calls0 = sha = good = good_data = data_of = unpickle = path_join = _ghost_rt

file_pos = file_content = hash_acc = strlen = strcat = substr = _ghost_rt


def ident(t):
    return t


def opaque(fn):
    """specification helper that the verifier does not unfold at its uses (uninterpreted function + defining equation);
    at run time it is the plain Python function"""
    return fn


def ghost(qual, before, name, expr):
    """ghost assignment `name = expr` (expr: Python source over the locals) executed immediately before the first statement whose
    source text contains `before`; it only gives later hints / invariants a name for an intermediate value"""
    _c(qual).opts.setdefault("ghosts", []).append((before, name, expr))
