"""Differential validation of the DERIVED LIBRARY LEMMAS that pyvc/libcalls.py assumes about NumPy (they are statements about
np.unique / np.isin / np.where, not about the repository).  Run under the target interpreter on every check that used one of
them.  This is validation of the trusted base on generated inputs (bounded), not proof; a failure is a checker error."""
import json
import random
import sys

import numpy as np


def inc(rnd, n, ints=False):
    steps = [rnd.choice([1, 2, 3, 7]) if ints else rnd.choice([0.125, 0.5, 1.0, 1e-3, 3.7, 1e6]) for _ in range(n)]
    a = np.cumsum(steps) + (rnd.choice([0, -5, 100]) if ints else rnd.choice([0.0, -3.5, 1.7e9, 1e-6]))
    return a.astype(int) if ints else a.astype(float)


def main(out, n=3000, seed=0):
    rnd = random.Random(seed)
    bad, cnt = [], dict(unique=0, where_take=0, where_members=0)
    for t in range(n):
        m = rnd.randint(1, 40)
        x = inc(rnd, m)
        # L1: np.unique of a strictly increasing array returns it unchanged (float and int)
        for a in (x, inc(rnd, m, ints=True)):
            u = np.unique(a)
            cnt['unique'] += 1
            if u.shape != a.shape or not (u == a).all() or u.dtype != a.dtype:
                bad.append(dict(lemma='unique', a=a.tolist()))
        # L2: np.where(np.isin(x, x.take(c)))[0] == c for strictly increasing x and c (also through np.unique)
        k = rnd.randint(0, m)
        c = np.array(sorted(rnd.sample(range(m), k)), dtype=int)
        for v in (x.take(c), np.unique(x.take(c))):
            w = np.where(np.isin(x, v))[0]
            cnt['where_take'] += 1
            if w.shape != c.shape or not (w == c).all():
                bad.append(dict(lemma='where_take', x=x.tolist(), c=c.tolist()))
        # L3: for strictly increasing x, v with every v[j] a member of x, np.where(np.isin(x, v))[0] lists the positions of
        #     v[0], v[1], ... in x, in that order (v given as list / array / through np.unique(np.asarray(.)))
        v = [float(x[i]) for i in c]
        for vv in (v, np.array(v), np.unique(np.asarray(v))):
            w = np.where(np.isin(x, vv))[0]
            cnt['where_members'] += 1
            if len(w) != len(v) or any(x[w[j]] != v[j] for j in range(len(v))):
                bad.append(dict(lemma='where_members', x=x.tolist(), v=v))
    json.dump(dict(status='violation' if bad else 'ok', checked=cnt, failures=bad[:5], numpy=np.__version__), open(out, 'w'), indent=1)
    return 1 if bad else 0


if __name__ == '__main__':
    sys.exit(main(sys.argv[1], int(sys.argv[2]) if len(sys.argv) > 2 else 3000, int(sys.argv[3]) if len(sys.argv) > 3 else 0))
