"""C18 / C19 - dataset registry and remote cache (datasets/_base.py).

The loaders (19 bundled, 76 remote) are verified against the *contracts* of the two generic loading routines, which record
a ghost event with the arguments they were called with (file, url, checksum, cache slot)."""
from pyvc.spec import *

B = 'traffic_weaver.datasets._base.'
LOAD = B + 'load_dataset'
RES = B + 'load_csv_dataset_from_resources'
REMOTE = B + 'load_csv_dataset_from_remote'
HOME = B + 'get_data_home'

contract(RES, params=dict(file_name=Str, resources_module=Str, unpack_dataset_columns=Bool),
         returns=Union(Seq2(Real), Tuple(Seq(Real), Seq(Real))), event='resource_load', no_rt=True, assumed_contract=True)


@ensures(RES)
def res_shape(file_name, resources_module, unpack_dataset_columns, result):
    return (is_tuple(result) if unpack_dataset_columns else is_2d(result))


contract(LOAD, params=dict(dataset=Str, unpack_dataset_columns=Bool, kwargs=Kwargs), returns=Any, no_rt=True)


@raises(LOAD, 'ValueError')
def load_unknown(dataset, unpack_dataset_columns, kwargs):
    """unknown dataset names are rejected"""
    return not known_loader(dataset)


REMOTE_T = Named('RemoteFileMetadata', filename=Str, url=Str, checksum=Str)

contract(REMOTE, params=dict(remote=REMOTE_T, dataset_filename=Str, dataset_folder=Str, data_home=Opt(Str), download_if_missing=Bool,
                             download_even_if_available=Bool, validate_checksum=Bool, n_retries=Int, delay=Real, gzip=Bool,
                             unpack_dataset_columns=Bool),
         returns=Union(Seq2(Real), Tuple(Seq(Real), Seq(Real))), event='remote_load', no_rt=True, no_frame=True,
         raises_only=['OSError', 'URLError', 'TimeoutError', 'Exception', 'ValueError', 'UnpicklingError', 'FileNotFoundError',
                      'FileExistsError'],
         program_point_invariant='cache_ok', fs_guarantee='cache_file')


def home(data_home):
    return expanduser((env_value('TRAFFIC_WEAVER_DATA') if env_is_set('TRAFFIC_WEAVER_DATA') else '~/.traffic-weaver-data')
                      if data_home is None else data_home)


def cache_file(remote, dataset_filename, dataset_folder, data_home, download_if_missing, download_even_if_available,
               validate_checksum, n_retries, delay, gzip, unpack_dataset_columns):
    """the cache entry of this dataset"""
    return path_join(path_join(home(data_home), dataset_folder), dataset_filename)


def entry_ok(kind, content, checksum, gzip):
    """absent, or a complete copy of verified data"""
    return kind == 0 or (kind == 2 and good(content, checksum, gzip))


def cache_ok(remote, dataset_filename, dataset_folder, data_home, download_if_missing, download_even_if_available,
             validate_checksum, n_retries, delay, gzip, unpack_dataset_columns):
    """C19 invariant, required to hold after EVERY statement and on EVERY exceptional edge (= at every crash point)"""
    return entry_ok(fs_kind(path_join(path_join(home(data_home), dataset_folder), dataset_filename)),
                    fs_content(path_join(path_join(home(data_home), dataset_folder), dataset_filename)), remote.checksum, gzip)


@requires(REMOTE)
def remote_pre(remote, dataset_filename, dataset_folder, data_home, download_if_missing, download_even_if_available,
               validate_checksum, n_retries, delay, gzip, unpack_dataset_columns):
    return (n_retries >= 0 and validate_checksum and not unpack_dataset_columns
            # the invariant is inductive over runs: the entry is assumed fine before this load
            and entry_ok(fs_kind(path_join(path_join(home(data_home), dataset_folder), dataset_filename)),
                         fs_content(path_join(path_join(home(data_home), dataset_folder), dataset_filename)), remote.checksum, gzip))


@ensures(REMOTE)
def remote_shape(remote, dataset_filename, dataset_folder, data_home, download_if_missing, download_even_if_available,
                 validate_checksum, n_retries, delay, gzip, unpack_dataset_columns, result):
    return (is_tuple(result) if unpack_dataset_columns else is_2d(result))


@ensures(REMOTE, export=False)
def remote_returns_cached_verified(remote, dataset_filename, dataset_folder, data_home, download_if_missing,
                                   download_even_if_available, validate_checksum, n_retries, delay, gzip, unpack_dataset_columns, result):
    """after a successful load the entry is a complete copy of verified data and what is returned is exactly that data"""
    return (fs_kind(path_join(path_join(home(data_home), dataset_folder), dataset_filename)) == 2
            and good(fs_content(path_join(path_join(home(data_home), dataset_folder), dataset_filename)), remote.checksum, gzip)
            and data_of(result) == unpickle(fs_content(path_join(path_join(home(data_home), dataset_folder), dataset_filename)))
            and good_data(result, remote.checksum, gzip))


@ensures(REMOTE, export=False)
def remote_hit_without_network(remote, dataset_filename, dataset_folder, data_home, download_if_missing,
                               download_even_if_available, validate_checksum, n_retries, delay, gzip, unpack_dataset_columns, result):
    """a cached dataset is served without network access and the entry is left as it was"""
    return implies(fs0_kind(path_join(path_join(home(data_home), dataset_folder), dataset_filename)) != 0
                   and not (download_if_missing and download_even_if_available),
                   net_calls() == net_calls0()
                   and fs_content(path_join(path_join(home(data_home), dataset_folder), dataset_filename))
                   == fs0_content(path_join(path_join(home(data_home), dataset_folder), dataset_filename)))


@ensures(REMOTE, export=False)
def remote_bounded_network(remote, dataset_filename, dataset_folder, data_home, download_if_missing,
                           download_even_if_available, validate_checksum, n_retries, delay, gzip, unpack_dataset_columns, result):
    return net_calls() - net_calls0() <= n_retries + 1


contract(HOME, params=dict(data_home=Opt(Str)), returns=Str, no_rt=True, inline=True)


@ensures(HOME)
def home_post(data_home, result):
    """the cache lives under the directory named by TRAFFIC_WEAVER_DATA when it is set"""
    return result == expanduser((env_value('TRAFFIC_WEAVER_DATA') if env_is_set('TRAFFIC_WEAVER_DATA') else '~/.traffic-weaver-data')
                                if data_home is None else data_home)


# ======================================================================================= C19

SHA256 = B + '_sha256'
FETCH = B + '_fetch_remote'

contract(SHA256, params=dict(path=Str), returns=Str, no_rt=True, no_frame=True)


@requires(SHA256)
def sha_pre(path):
    return fs_kind(path) != 0


@ensures(SHA256)
def sha_post(path, result):
    """the digest of exactly the bytes of the file"""
    return result == sha(fs_content(path))


@invariant(SHA256, loop=1)
def sha_inv(f, sha256hash, chunk_size, path):
    return (chunk_size == 8192 and file_pos(f) >= 0 and file_pos(f) <= strlen(file_content(f))
            and file_content(f) == fs_content(path)
            and strcat(hash_acc(sha256hash), substr(file_content(f), file_pos(f), strlen(file_content(f)) - file_pos(f)))
            == file_content(f)
            and strlen(hash_acc(sha256hash)) == file_pos(f))


@decreases(SHA256, loop=1)
def sha_dec(f):
    return strlen(file_content(f)) - file_pos(f)


# ------------------------------------------------------------------------------ _fetch_remote

contract(FETCH, params=dict(remote=REMOTE_T, dirname=Opt(Str), n_retries=Int, delay=Real, validate_checksum=Bool), returns=Str,
         no_rt=True, no_frame=True, raises_only=['Exception'], inline=True)


def target(remote, dirname):
    return remote.filename if dirname is None else path_join(dirname, remote.filename)


@requires(FETCH)
def fetch_pre(remote, dirname, n_retries, delay, validate_checksum):
    return n_retries >= 0


@raises(FETCH, 'OSError')
def fetch_checksum_mismatch(remote, dirname, n_retries, delay, validate_checksum):
    """a payload whose SHA-256 differs from the pinned one is refused (the condition is on the state *after* the download)"""
    return validate_checksum and sha(fs_content(target(remote, dirname))) != remote.checksum


@raises(FETCH, 'URLError', only_if=True)
def fetch_urlerror_after_budget(remote, dirname, n_retries, delay, validate_checksum):
    """a transient download error is absorbed n_retries times; it propagates only from the (n_retries+1)-th failed attempt"""
    return net_calls() - net_calls0() == n_retries + 1


@raises(FETCH, 'TimeoutError', only_if=True)
def fetch_timeout_after_budget(remote, dirname, n_retries, delay, validate_checksum):
    return net_calls() - net_calls0() == n_retries + 1


@invariant(FETCH, loop=1)
def fetch_inv(remote, n_retries, n_retries__pre, file_path, dirname):
    """retries left + network accesses made so far = initial budget"""
    return (0 <= n_retries and n_retries <= n_retries__pre and file_path == target(remote, dirname)
            and net_calls() - net_calls0() == n_retries__pre - n_retries)


@decreases(FETCH, loop=1)
def fetch_dec(n_retries):
    return n_retries


@ensures(FETCH)
def fetch_post(remote, dirname, n_retries, delay, validate_checksum, result):
    """returns only after a successful download, within the retry budget; the file is complete and (if asked) verified"""
    return (result == target(remote, dirname) and fs_kind(result) == 2
            and 1 <= net_calls() - net_calls0() and net_calls() - net_calls0() <= n_retries + 1
            and implies(validate_checksum, sha(fs_content(result)) == remote.checksum))
