"""Run-time only: builds Weaver objects through *public API histories* (so that a replayed pre-state is reachable),
and serialisable callables.  Used by pyvc.rt_runner for search and replay; never by the verifier."""
import numpy as np


def build_fn(d):
    a, b, c = d["__fn__"]
    f = lambda x, a=a, b=b, c=c: a * x + b + c * x * x   # noqa: E731
    f.__verif_repr__ = lambda: d
    return f


def gen_fn(rnd):
    return build_fn({"__fn__": [rnd.choice([0, 1, -2, 0.5]), rnd.choice([0, 1, 3]), rnd.choice([0, 0, 1])]})


def build(d):
    from traffic_weaver import Weaver
    r = d["__history__"]
    x = None if r["x"] is None else (np.array(r["x"], dtype=r.get("xdtype", "float64")) if r.get("xkind", "nd") == "nd" else list(r["x"]))
    y = np.array(r["y"], dtype="float64") if r.get("ykind", "nd") == "nd" else list(r["y"])
    w = Weaver(x, y)
    for name, kw in r["ops"]:
        kw = dict(kw)
        if "trend_func" in kw:
            kw["trend_func"] = build_fn(kw["trend_func"])
        if "rfa_class" in kw:
            import traffic_weaver.rfa as rfa
            kw["rfa_class"] = getattr(rfa, kw["rfa_class"])
        getattr(w, name)(**kw)
    w.__verif_repr__ = lambda: d
    w.__verif_inputs__ = [a for a in (x, y) if isinstance(a, np.ndarray)]
    return w


def gen_series(rnd, nmin=4, nmax=9):
    n = rnd.randint(nmin, nmax)
    cur = float(rnd.randint(-4, 4)) / 2
    xs = []
    for _ in range(n):
        xs.append(cur)
        cur += rnd.choice([0.5, 1.0, 1.0, 1.5, 2.0])
    ys = [float(rnd.randint(-6, 6)) / 2 for _ in range(n)]
    if len(set(ys)) == 1:
        ys[0] += 1.0
    return xs, ys


OPS = ["append_one_sample", "shift_x", "shift_y", "scale_x", "scale_y", "repeat", "truncate_by_index", "truncate_by_value", "normalize_x",
       "normalize_y", "recreate_from_average", "interpolate", "restore_original", "trend", "to_function", "to_function"]


def gen_weaver(rnd, max_ops=3):
    xs, ys = gen_series(rnd)
    recipe = dict(x=xs, y=ys, ops=[], xkind=rnd.choice(["nd", "nd", "list"]), ykind=rnd.choice(["nd", "nd", "list"]))
    if rnd.random() < 0.1:
        recipe["x"] = None
    elif rnd.random() < 0.12:
        # integer time axes (int32 / int64 only: narrower dtypes wrap around inside NumPy on the unchanged tree as well, which is
        # machine arithmetic, outside what the properties - and the A-real model - speak about)
        scale = rnd.choice([1, 5, 10, 15])
        recipe["x"] = [int(round(2 * v)) * scale for v in xs]
        recipe["xkind"] = "nd"
        recipe["xdtype"] = rnd.choice(["int32", "int64"])
    d = {"__history__": recipe}
    w = build(d)
    for _ in range(rnd.randint(0, max_ops)):
        op = rnd.choice(OPS)
        kw = {}
        if op == "append_one_sample":
            kw = dict(make_periodic=rnd.random() < 0.5)
        elif op in ("shift_x", "shift_y"):
            kw = dict(shift=float(rnd.randint(-4, 4)) / 2)
        elif op in ("scale_x", "scale_y"):
            kw = dict(scale=rnd.choice([0.5, 2.0, 1.5, 4.0]))
        elif op == "repeat":
            kw = dict(n=rnd.randint(1, 3))
        elif op == "truncate_by_index":
            if len(w) < 6:
                continue
            kw = dict(start=rnd.randint(0, 1), stop=len(w) - rnd.randint(0, 1))
            if len(w.get_reference()[0]) != len(w):
                continue
        elif op == "truncate_by_value":
            # bounds that are not samples: after oversampling the working series keeps another range than the reference
            xw = np.asarray(w.get()[0], dtype=float)
            if len(xw) < 6:
                continue
            span = float(xw[-1] - xw[0])
            kw = dict(x_left=float(xw[0]) + span * rnd.choice([0.0, 0.1, 0.23, 0.3]), x_right=float(xw[-1]) - span * rnd.choice([0.0, 0.1, 0.17, 0.3]))
        elif op in ("normalize_x", "normalize_y"):
            kw = dict(min_val=float(rnd.randint(-2, 0)), max_val=float(rnd.randint(1, 3)))
        elif op == "recreate_from_average":
            if len(w) > 12:
                continue
            kw = dict(n=rnd.randint(2, 4), rfa_class=rnd.choice(["PiecewiseConstantRFA", "LinearFixedRFA", "ExpFixedRFA", "LinearAdaptiveRFA", "ExpAdaptiveRFA"]))
        elif op == "interpolate":
            kw = dict(n=rnd.randint(4, 9), method=rnd.choice(["linear", "constant"]))
        elif op == "to_function":
            if len(w) < 5:
                continue
            kw = dict(s=rnd.choice([0, 0, 1.0]))
        elif op == "trend":
            kw = dict(trend_func={"__fn__": [rnd.choice([0, 1, -2, 0.5]), rnd.choice([0, 1]), 0]}, normalized=rnd.random() < 0.5)
        try:
            trial = dict(recipe, ops=recipe["ops"] + [[op, kw]])
            w2 = build({"__history__": trial})
            x2 = np.asarray(w2.get()[0], dtype=float)
            if len(x2) > 60 or not np.all(np.isfinite(x2)) or not np.all(np.isfinite(np.asarray(w2.get()[1], dtype=float))):
                continue
        except Exception:
            continue
        recipe = trial
        w = w2
    d = {"__history__": recipe}
    return build(d)


# ---------------------------------------------------------------- recreate-from-average strategy objects

RFA_CLASSES = ["PiecewiseConstantRFA", "FunctionRFA", "CubicSplineRFA", "LinearFixedRFA", "LinearAdaptiveRFA", "ExpFixedRFA", "ExpAdaptiveRFA"]


def build_supplier(d):
    kind = d["__supplier__"]
    if kind == "interp":
        sup = lambda x, y: (lambda t, x=x, y=y: float(np.interp(t, x, y)))       # noqa: E731
    elif kind == "constant":
        sup = lambda x, y: (lambda t, level=float(np.mean(y)): level)                # noqa: E731  (array in, scalar out)
    elif kind == "nearest":
        sup = lambda x, y: (lambda t, x=x, y=y: float(y[int(np.argmin(np.abs(np.asarray(x) - t)))]))   # noqa: E731
    else:
        sup = lambda x, y: (lambda t: 2.0 * t + 1.0)                              # noqa: E731
    sup.__verif_repr__ = lambda: d
    return sup


def build_rfa(d):
    import traffic_weaver.rfa as rfa
    r = d["__rfa__"]
    kw = dict(r.get("kw", {}))
    if isinstance(kw.get("sampling_function_supplier"), dict):
        kw["sampling_function_supplier"] = build_supplier(kw["sampling_function_supplier"])
    x = np.array(r["x"], dtype=r.get("xdtype", "float64")) if r.get("xkind", "nd") == "nd" else list(r["x"])
    y = np.array(r["y"], dtype="float64") if r.get("ykind", "nd") == "nd" else list(r["y"])
    o = getattr(rfa, r["cls"])(x, y, r["n"], **kw)
    o.__verif_repr__ = lambda: d
    return o


def gen_rfa_recipe(rnd, cls):
    """series with ties between neighbouring averages (the special-case branches of the adaptive strategies), uniform or not"""
    m = rnd.randint(2, 9)
    cur = float(rnd.randint(-4, 4)) / 2
    xs = []
    uniform = rnd.random() < 0.4
    for _ in range(m):
        xs.append(cur)
        cur += 1.0 if uniform else rnd.choice([0.5, 1.0, 1.0, 1.5, 2.0, 0.25])
    ys = []
    for i in range(m):
        if i and rnd.random() < 0.3:
            ys.append(ys[-1])
        else:
            ys.append(float(rnd.randint(-6, 6)) / 2)
    if rnd.random() < 0.2:
        ys[-1] = ys[0]                     # equal first and last value
    n = rnd.choice([2, 2, 3, 4, 5, 6, 8, 9])
    if rnd.random() < 0.12:
        # evenly spaced abscissae with grid sizes at which accumulated rounding differs between ways of computing the grid
        step = rnd.choice([1.0, 3.0, 300.0, 0.7])
        m = rnd.randint(3, 6)
        xs = [step * i for i in range(m)]
        ys = ys[:m] + [1.0] * max(0, m - len(ys))
        n = rnd.choice([49, 11, 17, 22, 34, 7, 9, 14, 15, 28, 30])
    kw = {}
    if cls in ("LinearFixedRFA", "LinearAdaptiveRFA", "ExpFixedRFA", "ExpAdaptiveRFA"):
        if rnd.random() < 0.5:
            kw["alpha"] = rnd.choice([1.0, 0.5, 0.75, 0.3, 0.1])
        else:
            kw["a"] = rnd.randint(0, n)
    if cls in ("ExpFixedRFA", "ExpAdaptiveRFA"):
        kw["beta"] = rnd.choice([0.5, 0.0, 1.0, 0.25, 0.7])
        kw["exp"] = rnd.choice([2.0, 1.0, 0.5, 3.0, 1.5, 4.0, 0.1, 0.05])
    if cls in ("LinearAdaptiveRFA", "ExpAdaptiveRFA"):
        kw["adaptive_smooth"] = rnd.choice([1.0, 1.0, 0.5, 2.0, 3.0])
    if cls == "FunctionRFA":
        kw["sampling_function_supplier"] = {"__supplier__": rnd.choice(["interp", "nearest", "affine", "constant"])}
    return {"__rfa__": dict(cls=cls, x=xs, y=ys, n=n, kw=kw, xkind=rnd.choice(["nd", "nd", "list"]), ykind=rnd.choice(["nd", "nd", "list"]),
                            xdtype="int64" if uniform and all(float(v).is_integer() for v in xs) and rnd.random() < 0.3 else "float64")}


def gen_rfa(rnd, cls):
    return build_rfa(gen_rfa_recipe(rnd, cls))
