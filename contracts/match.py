"""C01 / C03 - integral matching (match.py).

kernel      _integral_matching_stretch           : the stretched window has exactly the requested integral (C01), is displaced
                                                   along the documented profile with fixed ends and is idempotent (C03)
window loop _interval_integral_matching_stretch  : every window between consecutive fixed indices gets its target integral;
                                                   nothing outside the windows and no fixed point moves
resolution  integral_matching_reference_stretch  : fixed points / reference intervals as stated, targets = reference integrals
"""
from pyvc.spec import *

MT = 'traffic_weaver.match.'
KERNEL = MT + '_integral_matching_stretch'
WINDOWS = MT + '_interval_integral_matching_stretch'
TOP = MT + 'integral_matching_reference_stretch'


# ------------------------------------------------------------------ specification functions

def rule_term(x, r, i, method):
    """integral of the i-th gap under the chosen rule"""
    return ((r[i] + r[i + 1]) / 2 * (x[i + 1] - x[i])) if method == 'trapezoid' else (r[i] * (x[i + 1] - x[i]))


def total(x, r, method):
    return sum_range(0, len(x) - 1, lambda i: rule_term(x, r, i, method))


def profile(x, i, alpha):
    """documented shift profile: 1 - (2*|x - centre| / width)^alpha  (all ones for a two-point window)"""
    return 1 if len(x) == 2 else 1 - pw(2 * absr((x[len(x) - 1] + x[0]) / 2 - x[i]) / (x[len(x) - 1] - x[0]), alpha)


def profile_rule_term(x, i, alpha, method):
    return ((profile(x, i + 1, alpha) + profile(x, i, alpha)) * (x[i + 1] - x[i])) if method == 'trapezoid' \
        else (profile(x, i, alpha) * (x[i + 1] - x[i]))


def profile_total(x, alpha, method):
    return sum_range(0, len(x) - 1, lambda i: profile_rule_term(x, i, alpha, method))


def y_hat_spec(x, y, integral_value, method, alpha):
    """the shift scale factor solved from the linear integral equation"""
    return (2 * (integral_value - total(x, y, method)) / profile_total(x, alpha, method)) if method == 'trapezoid' \
        else ((integral_value - total(x, y, method)) / profile_total(x, alpha, method))


# ------------------------------------------------------------------------------- kernel

contract(KERNEL, params=dict(x=Seq(Real, kind='arraylike'), y=Seq(Real, kind='arraylike'), integral_value=Real, integral_method=Str,
                             dx=Real, alpha=Real, s=NoneT), returns=Seq(Real), lemmas=[], generator='gen_kernel')


@requires(KERNEL)
def kernel_pre(x, y, integral_value, integral_method, dx, alpha, s):
    return len(x) >= 2 and len(y) == len(x) and strictly_increasing(x) and alpha > 0


@raises(KERNEL, 'ValueError')
def kernel_unknown_rule(x, y, integral_value, integral_method, dx, alpha, s):
    return integral_method != 'trapezoid' and integral_method != 'rectangle'


@hint(KERNEL, before='w = np.array([1.0, 1.0])')
def kernel_h_two(x):
    return len(x) == 2


@hint(KERNEL, before='y_hat = 0')
def kernel_h_weights(x, w, alpha):
    """end weights vanish, interior weights lie in (0, 1] (two points: both weights 1)"""
    return (len(w) == len(x)
            and forall(range(len(x)), lambda i: 0 <= w[i] and w[i] <= 1)
            and implies(len(x) >= 3, w[0] == 0 and w[len(x) - 1] == 0 and forall(range(1, len(x) - 1), lambda i: w[i] > 0))
            and implies(len(x) == 2, w[0] == 1 and w[1] == 1))


def wd_local(x, w, delta_xi, integral_method):
    return seq_of(len(x) - 1, lambda i: ((w[i + 1] + w[i]) * delta_xi[i]) if integral_method == 'trapezoid' else (w[i] * delta_xi[i]))


def wd_spec(x, alpha, integral_method):
    return seq_of(len(x) - 1, lambda i: profile_rule_term(x, i, alpha, integral_method))


def nonneg_with_witness(S, n, witness):
    return forall(range(n), lambda i: S[i] >= 0) and S[witness] > 0


@hint(KERNEL, before='y_hat = 2 * delta_p')
def kernel_h_pos_trap(x, w, delta_xi):
    return nonneg_with_witness(arr_of(wd_local(x, w, delta_xi, 'trapezoid')), len(x) - 1, 0)


@hint(KERNEL, before='y_hat = 2 * delta_p')
def kernel_h_pos_trap_sum(x, w, delta_xi):
    """all terms non-negative, one positive: the sum is positive (lemma SUM_POS, proved by induction)"""
    return SUM_POS(wd_local(x, w, delta_xi, 'trapezoid'), 0, len(x) - 1)


@hint(KERNEL, before='y_hat = delta_p')
def kernel_h_pos_rect(x, w, delta_xi):
    return nonneg_with_witness(arr_of(wd_local(x, w, delta_xi, 'rectangle')), len(x) - 1, 0 if len(x) == 2 else 1)


@hint(KERNEL, before='y_hat = delta_p')
def kernel_h_pos_rect_sum(x, w, delta_xi):
    return SUM_POS(wd_local(x, w, delta_xi, 'rectangle'), 0, len(x) - 1)


@hint(KERNEL, before='return res_y if s is None')
def kernel_h_yhat(x, y, w, delta_xi, y_hat, delta_p, integral_value, integral_method):
    """multiplicative form of the definition of y_hat (no division): y_hat * Sum(profile terms) = k * (target - current)"""
    return (delta_p == integral_value - total(x, y, integral_method)
            and y_hat * sum_range(0, len(x) - 1, lambda i: ((w[i + 1] + w[i]) * delta_xi[i]) if integral_method == 'trapezoid'
                                  else (w[i] * delta_xi[i]))
            == ((2 * delta_p) if integral_method == 'trapezoid' else delta_p))


@hint(KERNEL, before='return res_y if s is None')
def kernel_h_lin(x, y, w, delta_xi, y_hat, res_y, integral_method):
    """Sum rule(x, y + yhat*w) = Sum rule(x, y) + c * Sum rule(x, w)   (c = yhat/2 for the trapezoid rule, whose
    profile terms are stored without the factor 1/2)"""
    return SUM_LIN(seq_of(len(x) - 1, lambda i: rule_term(x, y, i, integral_method)),
                   seq_of(len(x) - 1, lambda i: ((w[i + 1] + w[i]) * delta_xi[i]) if integral_method == 'trapezoid'
                          else (w[i] * delta_xi[i])),
                   seq_of(len(x) - 1, lambda i: rule_term(x, res_y, i, integral_method)),
                   (y_hat / 2) if integral_method == 'trapezoid' else y_hat,
                   0, len(x) - 1)


@hint(KERNEL, before='return res_y if s is None')
def kernel_h_profile_a(x, w, alpha):
    """the weights computed by the code are the documented profile"""
    return forall(range(len(x)), lambda i: w[i] == profile(x, i, alpha))


@hint(KERNEL, before='return res_y if s is None')
def kernel_h_profile_b(x, w, delta_xi, alpha, integral_method):
    return forall(range(len(x) - 1), lambda i: arr_of(wd_local(x, w, delta_xi, integral_method))[i]
                  == arr_of(wd_spec(x, alpha, integral_method))[i])


@hint(KERNEL, before='return res_y if s is None')
def kernel_h_profile_c(x, w, delta_xi, alpha, integral_method):
    """hence the two ways of writing the profile integral agree"""
    return SUM_CONG(wd_local(x, w, delta_xi, integral_method), wd_spec(x, alpha, integral_method), 0, len(x) - 1)


@hint(KERNEL, before='return res_y if s is None')
def kernel_h_profile_d(x, y, y_hat, integral_value, integral_method, alpha):
    return y_hat == y_hat_spec(x, y, integral_value, integral_method, alpha)


@ensures(KERNEL, export=False)
def kernel_profile(x, y, integral_value, integral_method, dx, alpha, s, result):
    """C03: every sample is displaced by yhat times the documented profile (one yhat per window)"""
    return (is_ndarray(result) and len(result) == len(y)
            and forall(range(len(y)), lambda i: eq(result[i], y[i] + y_hat_spec(x, y, integral_value, integral_method, alpha)
                                                   * profile(x, i, alpha))))


@ensures(KERNEL)
def kernel_ends_fixed(x, y, integral_value, integral_method, dx, alpha, s, result):
    """C03: with at least one interior sample the two end samples do not move"""
    return is_ndarray(result) and len(result) == len(y) and implies(len(x) >= 3, eq(result[0], y[0]) and eq(result[len(x) - 1], y[len(x) - 1]))


@ensures(KERNEL)
def kernel_integral(x, y, integral_value, integral_method, dx, alpha, s, result):
    """C01: the stretched window has exactly the requested integral under the chosen rule"""
    return eq(total(x, result, integral_method), integral_value)


@ensures(KERNEL, export=False)
def kernel_idempotent(x, y, integral_value, integral_method, dx, alpha, s, result):
    """C03: a window that already has the requested integral is returned unchanged"""
    return implies(total(x, y, integral_method) == integral_value, forall(range(len(y)), lambda i: eq(result[i], y[i])))


# ========================================================================== window loop

contract(WINDOWS, params=dict(x=Seq(Real, kind='arraylike'), y=Seq(Real, kind='arraylike'), dx=Real,
                              integral_values=Seq(Real, kind='arraylike'), fixed_points_indices_in_x=Seq(Int, kind='arraylike'),
                              integral_method=Str, alpha=Real, s=NoneT),
         returns=Seq(Real), generator='gen_windows')


def windows_ok(x, f):
    """fixed indices inside x, each window with at least one interior sample"""
    return (len(f) >= 1 and forall(range(len(f)), lambda j: 0 <= f[j] and f[j] < len(x))
            and forall(range(len(f) - 1), lambda j: f[j + 1] - f[j] >= 2))


@requires(WINDOWS)
def windows_pre(x, y, dx, integral_values, fixed_points_indices_in_x, integral_method, alpha, s):
    return (len(x) >= 2 and len(y) == len(x) and strictly_increasing(x) and alpha > 0
            and windows_ok(x, fixed_points_indices_in_x) and strictly_increasing(fixed_points_indices_in_x)
            and len(integral_values) == len(fixed_points_indices_in_x) - 1)


@raises(WINDOWS, 'ValueError')
def windows_unknown_rule(x, y, dx, integral_values, fixed_points_indices_in_x, integral_method, alpha, s):
    """an unknown rule is rejected as soon as there is a window to stretch"""
    return integral_method != 'trapezoid' and integral_method != 'rectangle' and len(fixed_points_indices_in_x) >= 2


def window_integral(x, r, f, j, method):
    return sum_range(f[j], f[j + 1], lambda i: rule_term(x, r, i, method))


@invariant(WINDOWS, loop=1)
def windows_inv_static(x, y, integral_values, fixed_points_indices_in_x, integral_method, alpha, _i, x__pre, y__pre):
    return (len(x__pre) >= 2 and len(y__pre) == len(x__pre) and strictly_increasing(x__pre) and alpha > 0
            and windows_ok(x__pre, fixed_points_indices_in_x) and strictly_increasing(fixed_points_indices_in_x)
            and len(integral_values) == len(fixed_points_indices_in_x) - 1
            and (integral_method == 'trapezoid' or integral_method == 'rectangle' or _i == 0)
            and is_ndarray(y) and len(y) == len(x) and len(x) == len(x__pre)
            and forall(range(len(x)), lambda p: x[p] == x__pre[p])
            and 0 <= _i and _i <= len(fixed_points_indices_in_x) - 1)


@invariant(WINDOWS, loop=1)
def windows_inv_done(x, y, integral_values, fixed_points_indices_in_x, integral_method, _i):
    """finished windows have their target integral"""
    return forall(range(_i), lambda j: window_integral(x, y, fixed_points_indices_in_x, j, integral_method) == integral_values[j])


@invariant(WINDOWS, loop=1)
def windows_inv_untouched(y, fixed_points_indices_in_x, _i, y__pre):
    """everything before the first and from the current fixed point on is still the input"""
    return forall(range(len(y)), lambda p: implies(p < fixed_points_indices_in_x[0] or p >= fixed_points_indices_in_x[_i],
                                                   y[p] == y__pre[p]))


@invariant(WINDOWS, loop=1)
def windows_inv_fixed(y, fixed_points_indices_in_x, _i, y__pre):
    """no fixed point has moved"""
    return forall(range(_i + 1), lambda j: y[fixed_points_indices_in_x[j]] == y__pre[fixed_points_indices_in_x[j]])


@hint(WINDOWS, loop=1, when='end')
def windows_h_shift(x, y, start, end, integral_method, last_result):
    """the window's integral over the whole array is the integral the kernel established on the slice (lemma SUM_SHIFT)"""
    return SUM_SHIFT(seq_of(len(x) - 1, lambda k: rule_term(x, y, k, integral_method)),
                     seq_of(len(last_result) - 1, lambda k: rule_term(x[start:end], last_result, k, integral_method)),
                     start, 0, end - 1 - start)


@hint(WINDOWS, loop=1, when='end')
def windows_h_prefix(x, y, y__head, start, integral_method):
    """the rule terms left of the current window are unchanged, hence every finished window keeps its integral
    (lemma SUM_CONG_RANGE on the prefix [0, start))"""
    return SUM_CONG_RANGE(seq_of(len(x) - 1, lambda k: rule_term(x, y, k, integral_method)),
                          seq_of(len(x) - 1, lambda k: rule_term(x, y__head, k, integral_method)),
                          0, start)


@ensures(WINDOWS)
def windows_integrals(x, y, dx, integral_values, fixed_points_indices_in_x, integral_method, alpha, s, result):
    """C01: the integral between each pair of consecutive fixed points equals its target"""
    return (is_ndarray(result) and len(result) == len(y)
            and forall(range(len(integral_values)), lambda j:
                       eq(window_integral(x, result, fixed_points_indices_in_x, j, integral_method), integral_values[j])))


@ensures(WINDOWS)
def windows_frame(x, y, dx, integral_values, fixed_points_indices_in_x, integral_method, alpha, s, result):
    """C03: samples outside the span of the fixed points and the fixed points themselves are unchanged"""
    return (forall(range(len(y)), lambda p:
                   implies(p < fixed_points_indices_in_x[0] or p > fixed_points_indices_in_x[len(fixed_points_indices_in_x) - 1],
                           result[p] == y[p]))
            and forall(range(len(fixed_points_indices_in_x)), lambda j:
                       eq(result[fixed_points_indices_in_x[j]], y[fixed_points_indices_in_x[j]])))


def prof_w(x, lo, hi, p, alpha):
    """documented shift profile of the window between the fixed indices lo < hi, at sample p"""
    return 1 - pw(2 * absr((x[hi] + x[lo]) / 2 - x[p]) / (x[hi] - x[lo]), alpha)


def profile_shaped(x, y, result, lo, hi, alpha):
    """the displacement over the window [lo, hi] is one factor times the documented profile (ratio form, first interior sample
    as the reference: no existential)"""
    return forall(range(lo, hi + 1), lambda p:
                  eq((result[p] - y[p]) * prof_w(x, lo, hi, lo + 1, alpha), (result[lo + 1] - y[lo + 1]) * prof_w(x, lo, hi, p, alpha)))


@ensures(WINDOWS, assumed='bounded: run-time monitoring on generated inputs only (the kernel proves the profile per window '
                          '- kernel_profile; that every window of the loop is stretched with the requested exponent is monitored)')
def windows_profile_rt_c03(x, y, dx, integral_values, fixed_points_indices_in_x, integral_method, alpha, s, result):
    """C03: within every window the samples move along the documented profile for the requested exponent"""
    return forall(range(len(fixed_points_indices_in_x) - 1), lambda j:
                  profile_shaped(x, y, result, fixed_points_indices_in_x[j], fixed_points_indices_in_x[j + 1], alpha))


# ============================================================================ resolution (top level)

contract(TOP, params=dict(x=Seq(Real), y=Seq(Real), x_ref=Seq(Real),
                          y_ref=Seq(Real), fixed_points_in_x=Opt(Seq(Real, kind='arraylike')), fixed_points_indices_in_x=Opt(Seq(Int, kind='arraylike')),
                          fixed_points_finding_strategy=Str, target_function_integral_method=Str,
                          reference_function_integral_method=Str, alpha=Real, s=NoneT),
         returns=Seq(Real), generator='gen_top')


def known_strategy(s):
    return s == 'closest' or s == 'lower' or s == 'higher'


def known_rule(m):
    return m == 'trapezoid' or m == 'rectangle'


def fixed_idx(x, x_ref, j, strategy):
    """index in x of the sample selected for the j-th reference position"""
    return nearest(x, x_ref[j], strategy)


def fix_e(x, P, F, j):
    """explicit designation: the j-th fixed index (explicit indices, or the position of the j-th explicit abscissa in x)"""
    return F[j] if F is not None else nearest(x, P[j], 'closest')


def n_e(P, F):
    return len(F) if F is not None else len(P)


def ref_e(x, x_ref, P, F, j):
    """explicit designation: the reference position that corresponds to the j-th fixed point (the closest one)"""
    return nearest(x_ref, x[fix_e(x, P, F, j)], 'closest')


def explicit_ok(x, x_ref, P, F):
    """the property's quantifier for explicitly designated fixed points: given in increasing order, members of x, distinct with
    at least one interior sample per interval, and corresponding to distinct reference positions (stated pairwise)"""
    return ((forall(range(len(F)), lambda j: 0 <= F[j] and F[j] < len(x)) and strictly_increasing(F)) if F is not None
            else (strictly_increasing(P) and forall(range(len(P)), lambda j: 0 <= nearest(x, P[j], 'closest')
                                                    and nearest(x, P[j], 'closest') < len(x) and x[nearest(x, P[j], 'closest')] == P[j]))) \
        and n_e(P, F) >= 1 \
        and forall(range(n_e(P, F) - 1), lambda j: fix_e(x, P, F, j + 1) - fix_e(x, P, F, j) >= 2) \
        and forall(range(n_e(P, F)), lambda i: forall(range(n_e(P, F)), lambda j:
                   implies(i < j, ref_e(x, x_ref, P, F, i) < ref_e(x, x_ref, P, F, j))))


@requires(TOP)
def top_pre(x, y, x_ref, y_ref, fixed_points_in_x, fixed_points_indices_in_x, fixed_points_finding_strategy,
            target_function_integral_method, reference_function_integral_method, alpha, s):
    return (len(x) >= 2 and len(y) == len(x) and strictly_increasing(x) and alpha > 0
            and len(x_ref) >= 1 and len(y_ref) == len(x_ref) and strictly_increasing(x_ref)
            # the property's quantifier: the selected fixed points are distinct and leave at least one interior sample
            and (explicit_ok(x, x_ref, fixed_points_in_x, fixed_points_indices_in_x)
                 if (fixed_points_in_x is not None or fixed_points_indices_in_x is not None)
                 else implies(known_strategy(fixed_points_finding_strategy), forall(range(len(x_ref) - 1), lambda j:
                              fixed_idx(x, x_ref, j + 1, fixed_points_finding_strategy)
                              - fixed_idx(x, x_ref, j, fixed_points_finding_strategy) >= 2))))


@raises(TOP, 'ValueError')
def top_rejected(x, y, x_ref, y_ref, fixed_points_in_x, fixed_points_indices_in_x, fixed_points_finding_strategy,
                 target_function_integral_method, reference_function_integral_method, alpha, s):
    """unknown search strategy or integration rule (the target rule only matters once there is a window)"""
    return ((not known_rule(reference_function_integral_method)
             or (not known_rule(target_function_integral_method) and n_e(fixed_points_in_x, fixed_points_indices_in_x) >= 2)
             # more designated fixed points than samples (both arguments are checked, also the one that is then not used)
             or (fixed_points_in_x is not None and len(fixed_points_in_x) > len(x))
             or (fixed_points_indices_in_x is not None and len(fixed_points_indices_in_x) > len(x)))
            if (fixed_points_in_x is not None or fixed_points_indices_in_x is not None)       # the search strategy is not used
            else (not known_strategy(fixed_points_finding_strategy) or not known_rule(reference_function_integral_method)
                  or (not known_rule(target_function_integral_method) and len(x_ref) >= 2)))


@hint(TOP, before='fixed_points_in_x = np.unique(fixed_points_in_x)', optional=True)
def top_h_selected(x, x_ref, fixed_points_finding_strategy, fixed_points_in_x, last_result):
    """the search result is *the* index the specification determines (uniqueness of the definitional spec)"""
    return (len(last_result) == len(x_ref)
            and forall(range(len(x_ref)), lambda j: last_result[j] == fixed_idx(x, x_ref, j, fixed_points_finding_strategy)))


@hint(TOP, before='fixed_points_in_x = np.unique(fixed_points_in_x)', optional=True)
def top_h_increasing(x, x_ref, fixed_points_in_x, last_result):
    """distinct selected samples, at least one interior sample between neighbours (from the precondition)"""
    return (forall(range(len(x_ref)), lambda j: 0 <= last_result[j] and last_result[j] < len(x))
            and forall(range(len(x_ref) - 1), lambda j: last_result[j + 1] - last_result[j] >= 2)
            and strictly_increasing(last_result)
            and len(fixed_points_in_x) == len(x_ref)
            and forall(range(len(x_ref)), lambda j: fixed_points_in_x[j] == x[last_result[j]])
            and strictly_increasing(fixed_points_in_x))


@hint(TOP, before='if len(fixed_points_in_x) >= len(x) + 1 / 2', optional=True)
def top_h_resolved(x, x_ref, fixed_points_in_x, fixed_points_indices_in_x, fixed_points_in_x_ref_indices, last_result,
                   fixed_points_in_x__pre, fixed_points_indices_in_x__pre):
    """default designation, after np.unique / np.where(np.isin(..)): the fixed indices are exactly the selected indices"""
    return ((len(fixed_points_in_x) == len(x_ref) and len(fixed_points_indices_in_x) == len(x_ref)
             and forall(range(len(x_ref)), lambda j: fixed_points_indices_in_x[j] == last_result[j])
             and len(fixed_points_in_x_ref_indices) == len(x_ref)
             and forall(range(len(x_ref)), lambda j: fixed_points_in_x_ref_indices[j] == j))
            if (fixed_points_in_x__pre is None and fixed_points_indices_in_x__pre is None) else True)


@hint(TOP, before='fixed_points_in_x_ref = x_ref.take(')
def top_h_fixed_vals(x, fixed_points_in_x, fixed_points_in_x__pre, fixed_points_indices_in_x__pre):
    """explicit designation: the abscissae looked up in the reference are those of the designated samples, in increasing order"""
    return (len(fixed_points_in_x) == n_e(fixed_points_in_x__pre, fixed_points_indices_in_x__pre)
            and forall(range(len(fixed_points_in_x)), lambda j:
                       fixed_points_in_x[j] == x[fix_e(x, fixed_points_in_x__pre, fixed_points_indices_in_x__pre, j)])
            and strictly_increasing(fixed_points_in_x))


@hint(TOP, before='fixed_points_in_x_ref_indices = np.where(np.isin(x_ref, fixed_points_in_x_ref))[0]')
def top_h_ref_e(x, x_ref, last_result, fixed_points_in_x__pre, fixed_points_indices_in_x__pre):
    """explicit designation: the search in the reference abscissae returns, for each fixed point, *the* closest reference
    position (uniqueness of the definitional specification); by the precondition these positions are strictly increasing"""
    return (len(last_result) == n_e(fixed_points_in_x__pre, fixed_points_indices_in_x__pre)
            and forall(range(len(last_result)), lambda j: 0 <= last_result[j] and last_result[j] < len(x_ref)
                       and last_result[j] == ref_e(x, x_ref, fixed_points_in_x__pre, fixed_points_indices_in_x__pre, j)))


@hint(TOP, before='fixed_points_in_x_ref_indices = np.where(np.isin(x_ref, fixed_points_in_x_ref))[0]')
def top_h_ref_inc(last_result):
    """... and by the precondition these positions are strictly increasing"""
    return strictly_increasing(last_result)


@hint(TOP, before='if len(fixed_points_in_x) >= len(x) + 1 / 2')
def top_h_resolved_e(x, x_ref, fixed_points_in_x, fixed_points_indices_in_x, fixed_points_in_x_ref_indices,
                     fixed_points_in_x__pre, fixed_points_indices_in_x__pre):
    """explicit designation: the fixed indices are the designated ones (explicit indices, or the positions of the explicit
    abscissae in x) and the reference positions are the closest reference positions"""
    return ((len(fixed_points_in_x) == n_e(fixed_points_in_x__pre, fixed_points_indices_in_x__pre)
             and len(fixed_points_indices_in_x) == n_e(fixed_points_in_x__pre, fixed_points_indices_in_x__pre)
             and forall(range(len(fixed_points_indices_in_x)), lambda j:
                        fixed_points_indices_in_x[j] == fix_e(x, fixed_points_in_x__pre, fixed_points_indices_in_x__pre, j))
             and len(fixed_points_in_x_ref_indices) == n_e(fixed_points_in_x__pre, fixed_points_indices_in_x__pre)
             and forall(range(len(fixed_points_in_x_ref_indices)), lambda j:
                        fixed_points_in_x_ref_indices[j] == ref_e(x, x_ref, fixed_points_in_x__pre, fixed_points_indices_in_x__pre, j)))
            if (fixed_points_in_x__pre is not None or fixed_points_indices_in_x__pre is not None) else True)


@ensures(TOP)
def top_integrals(x, y, x_ref, y_ref, fixed_points_in_x, fixed_points_indices_in_x, fixed_points_finding_strategy,
                  target_function_integral_method, reference_function_integral_method, alpha, s, result):
    """C01: between consecutive fixed points the result integrates (target rule) to the reference integral (reference rule)
    over the corresponding reference interval"""
    return (is_ndarray(result) and len(result) == len(y)
            and (forall(range(n_e(fixed_points_in_x, fixed_points_indices_in_x) - 1), lambda j:
                        eq(sum_range(fix_e(x, fixed_points_in_x, fixed_points_indices_in_x, j),
                                     fix_e(x, fixed_points_in_x, fixed_points_indices_in_x, j + 1),
                                     lambda i: rule_term(x, result, i, target_function_integral_method)),
                           sum_range(ref_e(x, x_ref, fixed_points_in_x, fixed_points_indices_in_x, j),
                                     ref_e(x, x_ref, fixed_points_in_x, fixed_points_indices_in_x, j + 1),
                                     lambda k: rule_term(x_ref, y_ref, k, reference_function_integral_method))))
                 if (fixed_points_in_x is not None or fixed_points_indices_in_x is not None)
                 else forall(range(len(x_ref) - 1), lambda j:
                             eq(sum_range(fixed_idx(x, x_ref, j, fixed_points_finding_strategy),
                                          fixed_idx(x, x_ref, j + 1, fixed_points_finding_strategy),
                                          lambda i: rule_term(x, result, i, target_function_integral_method)),
                                rule_term(x_ref, y_ref, j, reference_function_integral_method)))))


@ensures(TOP)
def top_frame(x, y, x_ref, y_ref, fixed_points_in_x, fixed_points_indices_in_x, fixed_points_finding_strategy,
              target_function_integral_method, reference_function_integral_method, alpha, s, result):
    """C03: samples outside the span of the fixed points, and the fixed points themselves, are unchanged"""
    return ((forall(range(len(y)), lambda p:
                    implies(p < fix_e(x, fixed_points_in_x, fixed_points_indices_in_x, 0)
                            or p > fix_e(x, fixed_points_in_x, fixed_points_indices_in_x,
                                         n_e(fixed_points_in_x, fixed_points_indices_in_x) - 1), eq(result[p], y[p])))
             and forall(range(n_e(fixed_points_in_x, fixed_points_indices_in_x)), lambda j:
                        eq(result[fix_e(x, fixed_points_in_x, fixed_points_indices_in_x, j)],
                           y[fix_e(x, fixed_points_in_x, fixed_points_indices_in_x, j)])))
            if (fixed_points_in_x is not None or fixed_points_indices_in_x is not None)
            else (forall(range(len(y)), lambda p:
                         implies(p < fixed_idx(x, x_ref, 0, fixed_points_finding_strategy)
                                 or p > fixed_idx(x, x_ref, len(x_ref) - 1, fixed_points_finding_strategy), result[p] == y[p]))
                  and forall(range(len(x_ref)), lambda j: eq(result[fixed_idx(x, x_ref, j, fixed_points_finding_strategy)],
                                                             y[fixed_idx(x, x_ref, j, fixed_points_finding_strategy)]))))


@ensures(TOP, assumed='bounded: run-time monitoring on generated inputs only (see windows_profile_rt_c03)')
def top_profile_rt_c03(x, y, x_ref, y_ref, fixed_points_in_x, fixed_points_indices_in_x, fixed_points_finding_strategy,
                       target_function_integral_method, reference_function_integral_method, alpha, s, result):
    """C03: between consecutive fixed points the samples move along the documented profile for the requested exponent"""
    return (forall(range(n_e(fixed_points_in_x, fixed_points_indices_in_x) - 1), lambda j:
                   profile_shaped(x, y, result, fix_e(x, fixed_points_in_x, fixed_points_indices_in_x, j),
                                  fix_e(x, fixed_points_in_x, fixed_points_indices_in_x, j + 1), alpha))
            if (fixed_points_in_x is not None or fixed_points_indices_in_x is not None)
            else forall(range(len(x_ref) - 1), lambda j:
                        profile_shaped(x, y, result, fixed_idx(x, x_ref, j, fixed_points_finding_strategy),
                                       fixed_idx(x, x_ref, j + 1, fixed_points_finding_strategy), alpha)))


# ------------------------------------------------------------------ run-time generators (bounded stand-in only)

def gen_top(rnd):
    import numpy as np
    from pyvc.spec import nearest
    m = rnd.randint(1, 5)
    n = rnd.randint(3, 6)
    xr = [float(rnd.randint(-3, 3))]
    for _ in range(m - 1):
        xr.append(xr[-1] + rnd.choice([1.0, 1.5, 2.0, 3.0]))
    xs = []
    for k in range(m - 1):
        seg = np.linspace(xr[k], xr[k + 1], n + 1)[:-1]
        if rnd.random() < 0.3:       # uneven spacing inside the interval
            seg = xr[k] + (xr[k + 1] - xr[k]) * np.sort(np.concatenate([[0.0], [rnd.choice([0.1, 0.2, 0.35, 0.5, 0.6, 0.85, 0.9]) + 0.01 * q
                                                                                   for q in range(n - 1)]]))
            seg = np.unique(seg)
        xs.extend(seg.tolist())
    xs.append(xr[-1])
    if m == 1:
        xs = [xr[0] - 1.0, xr[0], xr[0] + 0.5]
    xs = np.array(xs)
    if rnd.random() < 0.5:           # non-uniform / off-grid reference positions
        xs = xs + np.concatenate([[0.0], np.cumsum([rnd.choice([0.0, 0.01, 0.02]) for _ in range(len(xs) - 1)])])
    if rnd.random() < 0.3:
        xr = [v + rnd.choice([-0.05, 0.03, 0.0]) for v in xr]
    if rnd.random() < 0.2:
        # time axes of real measurements: UNIX-epoch seconds with 5-minute (or hourly) bins - large |x| relative to the step
        step = rnd.choice([300.0, 3600.0])
        xs = 1.7e9 + step * xs
        xr = [1.7e9 + step * v for v in xr]
    ys = np.array([float(rnd.randint(-6, 6)) / 2 for _ in xs])
    if rnd.random() < 0.25:          # integer-valued data with an integer dtype (every finite y)
        ys = np.array([rnd.randint(-6, 6) for _ in xs])
    yr = np.array([float(rnd.randint(-6, 6)) / 2 for _ in xr])
    P = F = None
    mode = rnd.random()
    if mode < 0.45 and m >= 2:
        # explicitly designated fixed points: a subset of the samples closest to the reference positions (possibly skipping
        # reference positions, possibly ending before the last one), or arbitrary indices with an interior sample in between
        if rnd.random() < 0.7:
            c = [nearest(xs, v, 'closest') for v in xr]
            idx = [c[j] for j in range(m) if rnd.random() < 0.7]
        else:
            idx = [rnd.randint(0, 2)]
            while idx[-1] + 2 < len(xs) and rnd.random() < 0.8:
                idx.append(idx[-1] + rnd.randint(2, 5))
            idx = [i for i in idx if i < len(xs)]
        idx = sorted(set(idx))
        if idx:
            if rnd.random() < 0.5:
                F = np.array(idx) if rnd.random() < 0.6 else list(idx)
            else:
                P = xs[idx] if rnd.random() < 0.6 else xs[idx].tolist()
    return dict(x=xs if rnd.random() < 0.8 else xs.tolist(), y=ys, x_ref=np.array(xr), y_ref=yr, fixed_points_in_x=P,
                fixed_points_indices_in_x=F,
                fixed_points_finding_strategy=rnd.choice(['closest', 'closest', 'lower', 'higher', 'nope']),
                target_function_integral_method=rnd.choice(['trapezoid', 'rectangle', 'trapezoid', 'simpson']),
                reference_function_integral_method=rnd.choice(['rectangle', 'trapezoid', 'rectangle', 'bad']),
                alpha=rnd.choice([0.5, 1.0, 2.0, 3.0]), s=None)


def gen_windows(rnd):
    import numpy as np
    q = rnd.randint(1, 4)
    f = [rnd.randint(0, 2)]
    for _ in range(q - 1):
        f.append(f[-1] + rnd.randint(2, 4))
    n = f[-1] + 1 + rnd.randint(0, 2)
    xs = np.cumsum([rnd.choice([0.5, 1.0, 1.5]) for _ in range(n)])
    ys = np.array([float(rnd.randint(-6, 6)) / 2 for _ in range(n)])
    if rnd.random() < 0.25:          # integer dtype
        ys = np.array([rnd.randint(-6, 6) for _ in range(n)])
    iv = [float(rnd.randint(-8, 8)) / 2 for _ in range(q - 1)]
    method = rnd.choice(['trapezoid', 'rectangle', 'trapezoid', 'other'])
    if rnd.random() < 0.25 and method != 'other':
        # targets that differ from the current window integrals only slightly (an almost matched series is still matched exactly)
        iv = [sum(rule_term(xs, ys, i, method) for i in range(f[j], f[j + 1])) + rnd.choice([4e-6, -7e-6, 2e-5, 0.0]) for j in range(q - 1)]
    return dict(x=xs, y=ys if rnd.random() < 0.7 else ys.tolist(), dx=1.0, integral_values=iv if rnd.random() < 0.5 else np.array(iv),
                fixed_points_indices_in_x=np.array(f) if rnd.random() < 0.6 else f,
                integral_method=method, alpha=rnd.choice([0.5, 1.0, 2.0]), s=None)


def gen_kernel(rnd):
    import numpy as np
    n = rnd.randint(2, 7)
    xs = np.cumsum([rnd.choice([0.5, 1.0, 1.5]) for _ in range(n)])
    ys = np.array([float(rnd.randint(-6, 6)) / 2 for _ in range(n)])
    return dict(x=xs if rnd.random() < 0.7 else xs.tolist(), y=ys if rnd.random() < 0.7 else ys.tolist(), integral_value=float(rnd.randint(-9, 9)) / 2,
                integral_method=rnd.choice(['trapezoid', 'rectangle', 'trapezoid', 'bad']), dx=1.0, alpha=rnd.choice([0.5, 1.0, 2.0, 3.0]), s=None)
