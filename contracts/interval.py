"""C17 - IntervalArray (interval view over a flat array) and process.average."""
from pyvc.spec import *

IA = 'traffic_weaver.interval.IntervalArray'
AVERAGE = 'traffic_weaver.process.average'

class_shape(IA, a=Seq(Real), n=Int)


@class_invariant(IA)
def ia_wf(self):
    return self.n >= 1 and is_ndarray(self.a)


# ----------------------------------------------------------------------------- __init__

contract(IA + '.__init__', params=dict(self=Obj(IA), a=Seq(Real, kind='arraylike'), n=Int), modifies=['self'],
         class_invariant_exit=False, inline=True)


@requires(IA + '.__init__')
def init_pre(self, a, n):
    return True


@ensures(IA + '.__init__')
def init_post(self, a, n, result):
    return (now(self).n == n and is_ndarray(now(self).a) and len(now(self).a) == len(a)
            and forall(range(len(a)), lambda i: now(self).a[i] == a[i]))


# -------------------------------------------------------------------- __getitem__ / __setitem__

def flat_index(self, item):
    return (item[0] * self.n + item[1]) if is_tuple(item) else item


def wrap(i, length):
    return i + length if i < 0 else i


contract(IA + '.__getitem__', params=dict(self=Obj(IA), item=Union(Int, Tuple(Int, Int))), returns=Real, inline=True)


@requires(IA + '.__getitem__')
def getitem_pre(self, item):
    return -len(self.a) <= flat_index(self, item) and flat_index(self, item) < len(self.a)


@ensures(IA + '.__getitem__')
def getitem_post(self, item, result):
    return result == self.a[wrap(flat_index(self, item), len(self.a))]


contract(IA + '.__setitem__', params=dict(self=Obj(IA), key=Union(Int, Tuple(Int, Int)), value=Real), modifies=['self'],
         inline=True, writes=['self'])


@requires(IA + '.__setitem__')
def setitem_pre(self, key, value):
    return -len(self.a) <= flat_index(self, key) and flat_index(self, key) < len(self.a)


@ensures(IA + '.__setitem__')
def setitem_post(self, key, value, result):
    return (now(self).n == self.n and len(now(self).a) == len(self.a)
            and now(self).a[wrap(flat_index(self, key), len(self.a))] == value
            and forall(range(len(self.a)), lambda i: implies(i != wrap(flat_index(self, key), len(self.a)),
                                                             now(self).a[i] == self.a[i])))


# ------------------------------------------------------------------------ small methods

contract(IA + '.nr_of_full_intervals', params=dict(self=Obj(IA)), returns=Int, inline=True)


@ensures(IA + '.nr_of_full_intervals')
def nfull_post(self, result):
    return result * self.n <= len(self.a) and len(self.a) < (result + 1) * self.n


contract(IA + '.__len__', params=dict(self=Obj(IA)), returns=Int, inline=True)


@ensures(IA + '.__len__')
def len_post(self, result):
    return result == len(self.a)


# ------------------------------------------------------------------------ to_2d_array

contract(IA + '.to_2d_array', params=dict(self=Obj(IA)), returns=Seq2(Real), inline=True)


@ensures(IA + '.to_2d_array')
def to2d_shape(self, result):
    """row by row: ceil(size / n) rows of n columns"""
    return (ncols(result) == self.n and (len(result) - 1) * self.n < len(self.a) + (1 if len(self.a) == 0 else 0)
            and len(self.a) <= len(result) * self.n and len(result) >= 0)


@ensures(IA + '.to_2d_array')
def to2d_layout(self, result):
    """[r, c] holds flat element r*n+c; NaN exactly on the padding"""
    return forall(range(len(result)), lambda r: forall(range(self.n), lambda c:
                  iff(nan_at(result, r, c), r * self.n + c >= len(self.a))
                  and ((result[r, c] == self.a[r * self.n + c]) if r * self.n + c < len(self.a) else True)))


# ------------------------------------------------------------------------ average

contract(AVERAGE, params=dict(x=Seq(Real, kind='arraylike'), y=Seq(Real, kind='arraylike'), interval=Int),
         returns=Tuple(Seq(Real), Seq(Real)))


@requires(AVERAGE)
def average_pre(x, y, interval):
    return interval >= 1 and len(x) == len(y) and len(x) >= 1


def row_count(length, n, r):
    return min(n, length - r * n)


@ensures(AVERAGE)
def average_post(x, y, interval, result):
    return (len(result[0]) == len(result[1])
            and (len(result[1]) - 1) * interval < len(y) and len(y) <= len(result[1]) * interval
            # each row's first abscissa
            and forall(range(len(result[0])), lambda r: result[0][r] == x[r * interval])
            # each row's mean over its non-padding entries
            and forall(range(len(result[1])), lambda r:
                       eq(result[1][r], sum_range(r * interval, r * interval + row_count(len(y), interval, r), lambda k: y[k])
                          / row_count(len(y), interval, r))))
