"""Assumed contracts of library functions, keyed by dotted name (trusted base; see lib.py)."""
import z3

from .core import *
from . import lib as L


def _dtype_arg(kws, pos, i=None):
    d = kws.get("dtype")
    if d is None and i is not None and len(pos) > i:
        d = pos[i]
    if d is None or isinstance(d, NoneV):
        return None
    if isinstance(d, ModV):
        if d.name in ("numpy.float64", "builtins.float", "numpy.float32", "numpy.double"):
            return "real"
        if d.name in ("numpy.int64", "builtins.int", "numpy.int32"):
            return "int"
    if isinstance(d, FunV) and d.kind == "lib":
        if d.name == "builtins.float":
            return "real"
        if d.name == "builtins.int":
            return "int"
    raise EngineError(f"dtype {d}")


def _as_real_elem(e):
    return lambda i: (lambda v: Num(to_real(v), "real") if isinstance(v, Num) else v)(e(i))


def _scalar(st, v):
    return isinstance(v, Num)


LIBS = {}
METHODS = {}


def libfn(*names):
    def deco(f):
        for n in names:
            LIBS[n] = f
        return f
    return deco


def method(*names):
    def deco(f):
        for n in names:
            METHODS[n] = f
        return f
    return deco


def call_lib(I, st, name, pos, kws, node):
    f = LIBS.get(name)
    if f is None:
        raise EngineError(f"no model for library function {name} (at {I.where(node)} in {st.frame.funcqual})")
    I.lib_used.add(name)
    return f(I, st, pos, kws, node)


def call_libmethod(I, st, selfv, name, pos, kws, node):
    f = METHODS.get(name)
    if f is None:
        raise EngineError(f"no model for method {name} (at {I.where(node)} in {st.frame.funcqual})")
    I.lib_used.add(name)
    return f(I, st, selfv, pos, kws, node)


def call_uninterp(I, st, fv, pos, kws, node):
    """pure deterministic callable (assumption A-pure): result is F(args)"""
    args = []
    for a in pos:
        if not isinstance(a, Num):
            raise EngineError("uninterpreted callable applied to a non-scalar")
        args.append(to_real(a))
    I.assumed.add("A-pure: user-supplied callables are deterministic, total, side-effect free")
    return [(st, Num(fv.fn(*args), "real"))]


def call_object(I, st, ref, o, pos, kws, node):
    if o.cls.startswith("ext:"):
        return call_libmethod(I, st, ref, o.cls[4:] + ".__call__", pos, kws, node)
    m = I.modules.find_method(o.cls, "__call__")
    if m is None:
        raise EngineError(f"{o.cls} object is not callable")
    fdef, modname, q = m
    return I.call_def(st, FunV("def", node=fdef, modname=modname, name=q + ".__call__", clsqual=q), [ref] + pos, kws, node)


def ext_getitem(I, st, ref, o, idx, node):
    return call_libmethod(I, st, ref, o.cls[4:] + ".__getitem__", [idx], {}, node)


def instantiate_abstract(I, st, fv, pos, kws, node, opaque_kwargs):
    return I.specs.instantiate_abstract(I, st, fv, pos, kws, node, opaque_kwargs)


# ----------------------------------------------------------------------- context managers

def cm_enter(I, st, cm, node):
    from . import oslib  # noqa: F401  (registers the OS models)
    if isinstance(cm, Ref) and isinstance(st.heap.get(cm.id), ObjVal):
        o = st.heap[cm.id]
        if o.cls.startswith("ext:"):
            return call_libmethod(I, st, cm, o.cls[4:] + ".__enter__", [], {}, node)
    raise EngineError(f"context manager {cm}")


def cm_exit(I, st, cm, ctl, node):
    o = st.heap[cm.id]
    f = METHODS.get(o.cls[4:] + ".__exit__")
    if f is None:
        raise EngineError("context manager exit")
    return f(I, st, cm, ctl, node)


# =========================================================================== builtins

@libfn("builtins.len")
def _len(I, st, pos, kws, node):
    (v,) = pos
    if isinstance(v, TupV):
        return [(st, IntN(len(v.items)))]
    if isinstance(v, StrV) and v.concrete:
        return [(st, IntN(len(v.s)))]
    if isinstance(v, Ref):
        o = st.heap.get(v.id)
        if isinstance(o, (SeqVal, ViewVal)):
            return [(st, Num(o.length, "int"))]
        if isinstance(o, Seq2Val):
            return [(st, Num(o.rows, "int"))]
        if isinstance(o, ObjVal):
            m = I.modules.find_method(o.cls, "__len__")
            if m:
                fdef, modname, q = m
                return I.call_def(st, FunV("def", node=fdef, modname=modname, name=q + ".__len__", clsqual=q), [v], {}, node)
    if isinstance(v, Num):
        return [(st, Exc("TypeError", "object of type scalar has no len()", I.where(node)))]
    if isinstance(v, NoneV):
        return [(st, Exc("TypeError", "object of type 'NoneType' has no len()", I.where(node)))]
    if isinstance(v, DictV) and not v.opaque:
        return [(st, IntN(len(v.d)))]
    raise EngineError(f"len of {v}")


@libfn("builtins.iter")
def _iter(I, st, pos, kws, node):
    (v,) = pos
    if isinstance(v, Ref) and isinstance(st.heap.get(v.id), ObjVal):
        o = st.heap[v.id]
        m = I.modules.find_method(o.cls, "__iter__")
        if m:
            fdef, modname, q = m
            return I.call_def(st, FunV("def", node=fdef, modname=modname, name=q + ".__iter__", clsqual=q), [v], {}, node)
    if isinstance(v, TupV):
        v = L.new_list(I, st, v.items)
    if not L.is_seq(st, v):
        raise EngineError(f"iter of {v}")
    return [(st, st.alloc(IterVal(v, z3.IntVal(0))))]


@libfn("builtins.next")
def _next(I, st, pos, kws, node):
    it = pos[0]
    o = st.heap.get(it.id) if isinstance(it, Ref) else None
    if not isinstance(o, IterVal):
        raise EngineError("next() of a non-iterator")
    rs = L.rseq(I, st, o.seq)
    exhausted = o.pos >= rs.length
    if len(pos) == 1:
        excs, ok = I.may_raise(st, exhausted, "StopIteration", "", I.where(node))
        res = list(excs)
        if ok is not None:
            v = rs.elem(o.pos)
            ok.heap[it.id] = IterVal(o.seq, z3.simplify(o.pos + 1) if conc_int(o.pos) is not None else o.pos + 1)
            res.append((ok, v))
        return res
    default = pos[1]
    if not isinstance(default, NoneV):
        raise EngineError("next(it, default) with a non-None default")
    ce = z3.simplify(exhausted)
    v = rs.elem(o.pos) if not z3.is_true(ce) else None
    if z3.is_true(ce):
        return [(st, NONE)]
    if z3.is_false(ce):
        st.heap[it.id] = IterVal(o.seq, z3.simplify(o.pos + 1))
        return [(st, v)]
    if not isinstance(v, Num):
        raise EngineError("next(it, None) over non-numeric elements")
    st.heap[it.id] = IterVal(o.seq, z3.If(exhausted, o.pos, o.pos + 1))
    return [(st, OptV(exhausted, v))]


@libfn("builtins.range")
def _range(I, st, pos, kws, node):
    vals = [to_int(p) for p in pos]
    if len(vals) == 1:
        return [(st, L.RangeV(z3.IntVal(0), vals[0], z3.IntVal(1)))]
    if len(vals) == 2:
        return [(st, L.RangeV(vals[0], vals[1], z3.IntVal(1)))]
    if conc_int(vals[2]) is None or conc_int(vals[2]) <= 0:
        raise EngineError("range with symbolic or non-positive step")
    return [(st, L.RangeV(*vals))]


@libfn("builtins.zip")
def _zip(I, st, pos, kws, node):
    return [(st, L.ZipV(list(pos)))]


@libfn("builtins.abs")
def _abs(I, st, pos, kws, node):
    (v,) = pos
    if isinstance(v, Num):
        if v.kind == "real":
            return [(st, Num(z3.If(v.t >= 0, v.t, -v.t), "real"))]
        t = to_int(v)
        return [(st, Num(z3.If(t >= 0, t, -t), "int"))]
    if isinstance(v, Ref):
        return _np_abs(I, st, pos, kws, node)
    raise EngineError(f"abs of {v}")


def _minmax(is_min):
    def f(I, st, pos, kws, node):
        if len(pos) < 2 or not all(isinstance(p, Num) for p in pos):
            raise EngineError("min/max of non-scalars")
        acc = pos[0]
        for p in pos[1:]:
            if acc.kind in ("int", "bool") and p.kind in ("int", "bool"):
                a, b, k = to_int(acc), to_int(p), "int"
            else:
                a, b, k = to_real(acc), to_real(p), "real"
            # Python returns the first of equal elements; values are equal then, kinds may differ (ignored under A-real)
            acc = Num(z3.If(b < a, b, a) if is_min else z3.If(b > a, b, a), k)
        return [(st, acc)]
    return f


LIBS["builtins.min"] = _minmax(True)
LIBS["builtins.max"] = _minmax(False)


@libfn("builtins.int")
def _int(I, st, pos, kws, node):
    (v,) = pos
    if isinstance(v, Num):
        if v.kind == "real":
            return [(st, Num(trunc_real(v.t), "int"))]
        return [(st, Num(to_int(v), "int"))]
    raise EngineError(f"int({v})")


@libfn("builtins.float")
def _float(I, st, pos, kws, node):
    (v,) = pos
    if isinstance(v, Num):
        return [(st, Num(to_real(v), "real"))]
    raise EngineError(f"float({v})")


@libfn("builtins.isinstance")
def _isinstance(I, st, pos, kws, node):
    v, cls = pos
    name = cls.name if isinstance(cls, (FunV, ModV)) else None
    if name == "builtins.int":
        if isinstance(v, Num):
            # np.int64 is not an `int`: index values produced by NumPy are tagged
            return [(st, BoolN(v.kind in ("int", "bool") and not getattr(v, "np", False)))]
        return [(st, BoolN(False))]
    if name == "builtins.float":
        return [(st, BoolN(isinstance(v, Num) and v.kind == "real"))]
    raise EngineError(f"isinstance(_, {cls})")


@libfn("builtins.getattr")
def _getattr(I, st, pos, kws, node):
    obj, name = pos[0], pos[1]
    if not isinstance(name, StrV):
        raise EngineError("getattr name")
    if not name.concrete:
        return I.specs.getattr_symbolic(I, st, obj, name, node)
    return L.getattr_(I, st, obj, name.s, node)



@libfn("builtins.print")
def _print(I, st, pos, kws, node):
    return [(st, NONE)]


@libfn("builtins.list")
def _list(I, st, pos, kws, node):
    if not pos:
        return [(st, L.new_list(I, st, []))]
    rs = L.rseq(I, st, pos[0])
    return [(st, L.new_seq(st, "list", rs.dtype, rs.length, rs.elem))]


@libfn("warnings.warn", "logging.Logger.info", "time.sleep")
def _noop(I, st, pos, kws, node):
    return [(st, NONE)]


@libfn("logging.getLogger")
def _getlogger(I, st, pos, kws, node):
    return [(st, AnyV("logger"))]


@method("logging.Logger.info", "logging.Logger.warning", "logging.Logger.debug", "any.info", "any.warning", "any.debug")
def _loginfo(I, st, selfv, pos, kws, node):
    return [(st, NONE)]


# ------------------------------------------------------------------------- str methods

@method("str.replace")
def _str_replace(I, st, selfv, pos, kws, node):
    a, b = pos
    if selfv.concrete and a.concrete and b.concrete:
        return [(st, StrV(selfv.s.replace(a.s, b.s)))]
    return [(st, StrV(z3.Replace(selfv.term(), a.term(), b.term()))) if False else (st, I.specs.str_replace_all(selfv, a, b))]


@method("str.startswith")
def _str_startswith(I, st, selfv, pos, kws, node):
    (a,) = pos
    if selfv.concrete and a.concrete:
        return [(st, BoolN(selfv.s.startswith(a.s)))]
    return [(st, Num(z3.PrefixOf(a.term(), selfv.term()), "bool"))]


@method("str.format")
def _str_format(I, st, selfv, pos, kws, node):
    return [(st, AnyV("str"))]


@method("scalar.item")
def _item(I, st, selfv, pos, kws, node):
    return [(st, selfv)]


# ------------------------------------------------------------------------- list methods

@method("list.append")
def _list_append(I, st, selfv, pos, kws, node):
    (v,) = pos
    o = st.heap[selfv.id]
    if o.items is not None:
        st.heap[selfv.id] = st.heap[L.new_list(I, st, o.items + [v]).id]
        return [(st, NONE)]
    old, n = o.elem, o.length
    dt = L._join_dtype(o.dtype, v)
    st.heap[selfv.id] = SeqVal("list", dt, n + 1, lambda i: L.ite_val(i == n, v, old(i)))
    return [(st, NONE)]


@method("list.extend")
def _list_extend(I, st, selfv, pos, kws, node):
    (v,) = pos
    o = st.heap[selfv.id]
    rs = L.rseq(I, st, v)
    vo = st.heap.get(v.id) if isinstance(v, Ref) else None
    if o.items is not None and isinstance(vo, SeqVal) and vo.items is not None:
        st.heap[selfv.id] = st.heap[L.new_list(I, st, o.items + vo.items).id]
        return [(st, NONE)]
    old, n, e2 = o.elem, o.length, rs.elem
    dt = o.dtype if o.dtype == rs.dtype else ("real" if {o.dtype, rs.dtype} <= {"int", "real"} else "obj")
    st.heap[selfv.id] = SeqVal("list", dt, n + rs.length, lambda i: L.ite_val(i >= n, e2(i - n), old(i)))
    return [(st, NONE)]


# =========================================================================== numpy

def _fresh_copy(st, rs, dtype=None, kind="ndarray"):
    e = rs.elem
    dt = dtype or (rs.dtype if rs.dtype in ("real", "int", "bool") else "real")
    if dt == "real" and rs.dtype != "real":
        e = _as_real_elem(e)
    ref = L.new_seq(st, kind, dt, rs.length, e, nanmask=rs.nanmask)
    if rs.arr is not None and dt == rs.dtype:
        st.heap[ref.id].arr = rs.arr
    return ref


def _asarray(I, st, pos, kws, node, always_copy=False):
    a = pos[0]
    dt = _dtype_arg(kws, pos, 1)
    if isinstance(a, Num):
        return [(st, Num(to_real(a), "real") if dt == "real" else a)]
    if isinstance(a, (NoneV, OptV)):
        raise EngineError("asarray(None)")
    if isinstance(a, Ref) and isinstance(st.heap.get(a.id), Seq2Val):
        if always_copy:
            o = st.heap[a.id]
            return [(st, st.alloc(Seq2Val(o.dtype, o.rows, o.cols, o.elem2, o.nanmask2)))]
        return [(st, a)]
    if isinstance(a, Ref) and isinstance(st.heap.get(a.id), L.MaskedVal):
        raise EngineError("asarray of masked selection")
    rs = L.rseq(I, st, a)
    if rs.dtype == "obj":
        # list of values that are not all numbers
        cl = rs.conc_len()
        if cl is None:
            raise EngineError("asarray of heterogeneous list")
        items = [rs.elem(z3.IntVal(k)) for k in range(cl)]
        if not all(isinstance(x, Num) for x in items):
            raise EngineError(f"asarray of non-numeric list {items}")
    if always_copy:
        return [(st, _fresh_copy(st, rs, dt))]
    if isinstance(a, Ref) and isinstance(st.heap.get(a.id), ViewVal):
        return [(st, a)] if dt in (None, st.heap[a.id].dtype) else [(st, _fresh_copy(st, rs, dt))]
    # alias if it already is an ndarray (of the requested dtype)
    if dt == "real":
        same = z3.And(_b(rs.is_nd), _b(rs.is_f64))
    elif dt is None:
        same = _b(rs.is_nd)
    else:
        same = z3.And(_b(rs.is_nd), z3.BoolVal(rs.dtype == dt))
    res = []
    for s, b in I.branch(st, same):
        if b:
            res.append((s, a))
        else:
            res.append((s, _fresh_copy(s, L.rseq(I, s, a), dt)))
    return res


def _b(x):
    return x if z3.is_expr(x) else z3.BoolVal(bool(x))


@libfn("numpy.asarray", "numpy.asanyarray")
def _np_asarray(I, st, pos, kws, node):
    return _asarray(I, st, pos, kws, node)


@libfn("numpy.array")
def _np_array(I, st, pos, kws, node):
    cp = kws.get("copy")
    if cp is not None and not (isinstance(cp, Num) and z3.is_true(z3.simplify(cp.t))):
        raise EngineError("np.array(copy=False)")
    a = pos[0]
    if isinstance(a, Ref) and isinstance(st.heap.get(a.id), SeqVal) and st.heap[a.id].kind == "list" and st.heap[a.id].items is not None:
        items = st.heap[a.id].items
        if items and all(isinstance(x, Ref) and L.is_seq(st, x) for x in items):
            raise EngineError("np.array of nested lists")
    return _asarray(I, st, pos, kws, node, always_copy=True)


@libfn("numpy.zeros")
def _np_zeros(I, st, pos, kws, node):
    n = pos[0]
    dt = _dtype_arg(kws, pos, 1) or "real"
    z = Num(z3.IntVal(0), "int") if dt == "int" else Num(z3.RealVal(0), "real")
    if isinstance(n, Num):
        ln = to_int(n)
        excs, ok = I.may_raise(st, ln < 0, "ValueError", "negative dimensions are not allowed", I.where(node))
        res = list(excs)
        if ok is not None:
            res.append((ok, L.new_seq(ok, "ndarray", dt, ln, lambda i: z)))
        return res
    raise EngineError("np.zeros shape")


@libfn("numpy.append")
def _np_append(I, st, pos, kws, node):
    a, v = pos
    ra = L.rseq(I, st, a)
    ea, n = ra.elem, ra.length
    if isinstance(v, Num):
        dt = "real" if (ra.dtype == "real" or v.kind == "real") else ra.dtype
        vv = Num(to_real(v), "real") if dt == "real" else v
        e = _as_real_elem(ea) if dt == "real" and ra.dtype != "real" else ea
        return [(st, L.new_seq(st, "ndarray", dt, n + 1, lambda i: L.ite_val(i == n, vv, e(i))))]
    rv = L.rseq(I, st, v)
    ev = rv.elem
    return [(st, L.new_seq(st, "ndarray", "real", n + rv.length, lambda i: L.ite_val(i >= n, _as_real_elem(ev)(i - n), _as_real_elem(ea)(i))))]


@libfn("numpy.insert")
def _np_insert(I, st, pos, kws, node):
    a, p, vals = pos
    ra = L.rseq(I, st, a)
    rv = L.rseq(I, st, vals) if not isinstance(vals, Num) else None
    if rv is None:
        raise EngineError("np.insert scalar")
    pt = to_int(p)
    ea, ev, n, m = ra.elem, rv.elem, ra.length, rv.length
    dt = ra.dtype
    excs, ok = I.may_raise(st, z3.Not(z3.And(pt >= -n, pt <= n)), "IndexError", "insert position out of bounds", I.where(node))
    res = list(excs)
    if ok is not None:
        pp = L.norm_index(pt, n)

        def elem(i):
            v = L.ite_val(i < pp, ea(i), L.ite_val(i < pp + m, L.coerce_elem(ev(i - pp), dt, "ndarray"), ea(i - m)))
            return v
        res.append((ok, L.new_seq(ok, "ndarray", dt, n + m, elem)))
    return res


@libfn("numpy.linspace")
def _np_linspace(I, st, pos, kws, node):
    a = pos[0]
    b = pos[1]
    num = kws.get("num", pos[2] if len(pos) > 2 else IntN(50))
    if isinstance(num, OptV):
        excs0, ok0 = I.may_raise(st, num.isnone, "TypeError", "linspace: num is None", I.where(node))
        if ok0 is None:
            return excs0
        kws2 = dict(kws)
        kws2["num"] = num.val
        return excs0 + _np_linspace(I, ok0, pos[:2], kws2, node)
    if not (isinstance(num, Num) and num.kind in ("int", "bool")):
        if isinstance(num, Num):
            return [(st, Exc("TypeError", "linspace: num must be an integer", I.where(node)))]
        raise EngineError("linspace num")
    nt = to_int(num)
    excs, ok = I.may_raise(st, nt < 0, "ValueError", "Number of samples must be non-negative", I.where(node))
    res = list(excs)
    if ok is None:
        return res
    st = ok
    div = z3.ToReal(nt - 1)
    if isinstance(a, Num) and isinstance(b, Num):
        x0, x1 = to_real(a), to_real(b)

        def elem(j):
            # numpy: start + j*step, last element set to `stop` exactly (equal over the reals); num == 1 -> [start]
            return Num(z3.If(nt == 1, x0, x0 + z3.ToReal(j) * (x1 - x0) / div), "real")
        res.append((st, L.new_seq(st, "ndarray", "real", nt, elem)))
        return res
    ra, rb = L.rseq(I, st, a), L.rseq(I, st, b)
    excs, ok = I.may_raise(st, ra.length != rb.length, "ValueError", "linspace: operands could not be broadcast", I.where(node))
    res.extend(excs)
    if ok is not None:
        ea, eb = ra.elem, rb.elem

        def elem2(j, k):
            return Num(z3.If(nt == 1, to_real(ea(k)), to_real(ea(k)) + z3.ToReal(j) * (to_real(eb(k)) - to_real(ea(k))) / div), "real")
        res.append((ok, ok.alloc(Seq2Val("real", nt, ra.length, elem2))))
    return res


@libfn("numpy.diff")
def _np_diff(I, st, pos, kws, node):
    (a,) = pos
    ra = L.rseq(I, st, a)
    e = ra.elem
    n = z3.If(ra.length > 0, ra.length - 1, z3.IntVal(0))
    k = "int" if ra.dtype == "int" else "real"
    return [(st, L.new_seq(st, "ndarray", k, z3.simplify(n) if ra.conc_len() is not None else n,
                           lambda i: L.scalar_op_total("Sub", e(i + 1), e(i))))]


@libfn("numpy.abs", "numpy.absolute")
def _np_abs(I, st, pos, kws, node):
    (a,) = pos
    if isinstance(a, Num):
        return _abs(I, st, pos, kws, node)
    ra = L.rseq(I, st, a)
    e = ra.elem

    def elem(i):
        v = e(i)
        t = v.t if v.kind != "bool" else to_int(v)
        return Num(z3.If(t >= 0, t, -t), v.kind if v.kind != "bool" else "int")
    return [(st, L.new_seq(st, "ndarray", ra.dtype, ra.length, elem))]


def _sum_of(I, st, rs):
    I.need_sum = True
    if rs.contig is not None:
        base, off = rs.contig
        if base.dtype == "real":
            A = L.array_term(I, st, base)
            return Num(SUM(A, off, off + rs.length), "real")
    A = L.array_term(I, st, rs)
    return Num(SUM(A, z3.IntVal(0), rs.length), "real")


@libfn("numpy.sum")
def _np_sum(I, st, pos, kws, node):
    (a,) = pos
    return [(st, _sum_of(I, st, L.rseq(I, st, a)))]


@method("ndarray.sum")
def _nd_sum(I, st, selfv, pos, kws, node):
    return [(st, _sum_of(I, st, L.rseq(I, st, selfv)))]


@libfn("numpy.mean")
def _np_mean(I, st, pos, kws, node):
    (a,) = pos
    rs = L.rseq(I, st, a)
    excs, ok = I.may_raise(st, rs.length == 0, "ZeroDivisionError", "mean of empty array (nan)", I.where(node))
    res = list(excs)
    if ok is not None:
        res.append((ok, Num(_sum_of(I, ok, rs).t / z3.ToReal(rs.length), "real")))
    return res


@libfn("numpy.std")
def _np_std(I, st, pos, kws, node):
    (a,) = pos
    rs = L.rseq(I, st, a)
    A = L.array_term(I, st, rs)
    s = STD(A, rs.length)
    st.assume(s >= 0)
    return [(st, Num(s, "real"))]


def _extreme(I, st, rs, is_min, node):
    excs, ok = I.may_raise(st, rs.length == 0, "ValueError", "zero-size array to reduction operation", I.where(node))
    res = list(excs)
    if ok is None:
        return res
    A = L.array_term(I, ok, rs)
    for ax in extreme_axioms(A, rs.length, is_min):
        ok.assume(ax)
    res.append((ok, Num((MINF if is_min else MAXF)(A, rs.length), "real")))
    return res


@method("ndarray.min")
def _nd_min(I, st, selfv, pos, kws, node):
    return _extreme(I, st, L.rseq(I, st, selfv), True, node)


@method("ndarray.max")
def _nd_max(I, st, selfv, pos, kws, node):
    return _extreme(I, st, L.rseq(I, st, selfv), False, node)


@method("ndarray.copy")
def _nd_copy(I, st, selfv, pos, kws, node):
    return [(st, _fresh_copy(st, L.rseq(I, st, selfv)))]


@method("ndarray.astype")
def _nd_astype(I, st, selfv, pos, kws, node):
    dt = _dtype_arg({}, pos, 0)
    return [(st, _fresh_copy(st, L.rseq(I, st, selfv), dt))]


@method("ndarray.tolist")
def _nd_tolist(I, st, selfv, pos, kws, node):
    rs = L.rseq(I, st, selfv)
    return [(st, L.new_seq(st, "list", rs.dtype, rs.length, rs.elem))]


@method("ndarray.item")
def _nd_item(I, st, selfv, pos, kws, node):
    rs = L.rseq(I, st, selfv)
    excs, ok = I.may_raise(st, rs.length != 1, "ValueError", "can only convert an array of size 1", I.where(node))
    res = list(excs)
    if ok is not None:
        res.append((ok, rs.elem(z3.IntVal(0))))
    return res


@method("ndarray.repeat")
def _nd_repeat(I, st, selfv, pos, kws, node):
    (num,) = pos
    rs = L.rseq(I, st, selfv)
    if isinstance(num, Num) and num.kind == "real":
        return [(st, Exc("TypeError", "repeat count must be an integer", I.where(node)))]
    nt = to_int(num)
    excs, ok = I.may_raise(st, nt < 0, "ValueError", "repeats may not contain negative values", I.where(node))
    res = list(excs)
    if ok is None:
        return res
    st = ok
    cn = conc_int(nt)
    e = rs.elem
    if cn is not None and cn > 0:
        res.append((st, L.new_seq(st, "ndarray", rs.dtype, rs.length * cn, lambda i: e(i / cn))))
        return res
    # symbolic repeat count: forward axiom  R[k*num + j] = a[k]
    ref = L.fresh_seq(st, "ndarray", rs.dtype if rs.dtype in ("int", "real", "bool") else "real", rs.length * nt, "rep")
    R = st.heap[ref.id].arr
    k, j = z3.Int(fresh_name("k")), z3.Int(fresh_name("j"))
    st.assume(forall_pat([k, j], z3.Implies(z3.And(k >= 0, k < rs.length, j >= 0, j < nt), R[k * nt + j] == e(k).t),
                         [R[k * nt + j]]))
    st.heap[ref.id].fwd = ("repeat", rs, nt)
    res.append((st, ref))
    return res


@libfn("numpy.tile")
def _np_tile(I, st, pos, kws, node):
    a, reps = pos
    rs = L.rseq(I, st, a)
    rt = to_int(reps)
    excs, ok = I.may_raise(st, rt < 0, "ValueError", "negative dimensions are not allowed", I.where(node))
    res = list(excs)
    if ok is None:
        return res
    st = ok
    e = rs.elem
    cr, cl = conc_int(rt), rs.conc_len()
    if cl is not None and cl > 0:
        res.append((st, L.new_seq(st, "ndarray", rs.dtype, rs.length * rt, lambda i: e(i % cl))))
        return res
    ref = L.fresh_seq(st, "ndarray", rs.dtype if rs.dtype in ("int", "real") else "real", rs.length * rt, "tile")
    T = st.heap[ref.id].arr
    c, j = z3.Int(fresh_name("c")), z3.Int(fresh_name("j"))
    st.assume(forall_pat([c, j], z3.Implies(z3.And(c >= 0, c < rt, j >= 0, j < rs.length), T[c * rs.length + j] == e(j).t),
                         [T[c * rs.length + j]]))
    res.append((st, ref))
    return res


@method("ndarray2.flatten")
def _nd2_flatten(I, st, selfv, pos, kws, node):
    o = st.heap[selfv.id]
    cc = conc_int(o.cols)
    e2 = o.elem2
    if cc is not None and cc > 0:
        return [(st, L.new_seq(st, "ndarray", o.dtype, o.rows * cc, lambda i: e2(i / cc, i % cc)))]
    ref = L.fresh_seq(st, "ndarray", o.dtype, o.rows * o.cols, "flat")
    F = st.heap[ref.id].arr
    r, c = z3.Int(fresh_name("r")), z3.Int(fresh_name("c"))
    st.assume(forall_pat([r, c], z3.Implies(z3.And(r >= 0, r < o.rows, c >= 0, c < o.cols), F[r * o.cols + c] == e2(r, c).t),
                         [F[r * o.cols + c]]))
    return [(st, ref)]


@method("ndarray.flatten")
def _nd_flatten(I, st, selfv, pos, kws, node):
    return [(st, _fresh_copy(st, L.rseq(I, st, selfv)))]


@method("ndarray.reshape")
def _nd_reshape(I, st, selfv, pos, kws, node):
    rs = L.rseq(I, st, selfv)
    if len(pos) == 1 and isinstance(pos[0], TupV):
        pos = pos[0].items
    m, n = to_int(pos[0]), to_int(pos[1])
    excs, ok = I.may_raise(st, z3.Or(m * n != rs.length, m < 0, n < 0), "ValueError", "cannot reshape array", I.where(node))
    res = list(excs)
    if ok is not None:
        e = rs.elem
        nm = rs.nanmask
        ref = ok.alloc(Seq2Val(rs.dtype, m, n, lambda r, c: e(r * n + c), (lambda r, c: nm(r * n + c)) if nm else None))
        ok.heap[ref.id].valid_total = rs.valid_total
        ok.heap[ref.id].flat_src = getattr(ok.heap.get(selfv.id), "pad_src", None) if isinstance(selfv, Ref) else None
        res.append((ok, ref))
    return res


@method("ndarray.take")
def _nd_take(I, st, selfv, pos, kws, node):
    (idx,) = pos
    rs = L.rseq(I, st, selfv)
    irs = L.rseq(I, st, idx)
    if irs.dtype not in ("int", "bool"):
        return [(st, Exc("TypeError", "take: indices must be integers", I.where(node)))]
    return L.gather(I, st, rs, irs, node)


@libfn("numpy.take")
def _np_take(I, st, pos, kws, node):
    return _nd_take(I, st, pos[0], pos[1:], kws, node)


@libfn("numpy.arange")
def _np_arange(I, st, pos, kws, node):
    step = kws.get("step", pos[2] if len(pos) > 2 else None)
    if len(pos) == 0:
        start, stop = IntN(0), kws["stop"]
    elif len(pos) == 1:
        start, stop = IntN(0), pos[0]
        if "stop" in kws:
            start, stop = pos[0], kws["stop"]
    else:
        start, stop = pos[0], pos[1]
    if step is None:
        step = IntN(1)
    if all(v.kind in ("int", "bool") for v in (start, stop, step)):
        a, b, s = to_int(start), to_int(stop), to_int(step)
        excs, ok = I.may_raise(st, s == 0, "ZeroDivisionError", "arange step 0", I.where(node))
        res = list(excs)
        if ok is not None:
            cs = conc_int(s)
            if cs == 1:
                n = z3.If(b > a, b - a, z3.IntVal(0))
            else:
                n = z3.If(z3.And(s > 0, b > a), (b - a + s - 1) / s, z3.IntVal(0))
                ok.assume(z3.Implies(z3.And(s > 0, b > a), z3.And(n * s >= b - a, (n - 1) * s < b - a)))
            res.append((ok, L.new_seq(ok, "ndarray", "int", z3.simplify(n), lambda i: Num(a + i * s, "int"))))
        return res
    a, b, s = to_real(start), to_real(stop), to_real(step)
    excs, ok = I.may_raise(st, s <= 0, "ZeroDivisionError", "arange with non-positive real step (model limit)", I.where(node))
    res = list(excs)
    if ok is not None:
        n = z3.Int(fresh_name("arange_n"))
        # n = ceil((b-a)/s)
        ok.assume(z3.And(n >= 0, z3.Implies(b > a, z3.And(z3.ToReal(n) * s >= b - a, z3.ToReal(n - 1) * s < b - a)), z3.Implies(b <= a, n == 0)))
        res.append((ok, L.new_seq(ok, "ndarray", "real", n, lambda i: Num(a + z3.ToReal(i) * s, "real"))))
    return res


@libfn("numpy.isscalar")
def _np_isscalar(I, st, pos, kws, node):
    (v,) = pos
    return [(st, BoolN(isinstance(v, Num)))]


@libfn("numpy.power")
def _np_power(I, st, pos, kws, node):
    return L.binop(I, st, "Pow", pos[0], pos[1], node)


@libfn("numpy.column_stack")
def _np_column_stack(I, st, pos, kws, node):
    (t,) = pos
    cols = t.items if isinstance(t, TupV) else None
    if cols is None or len(cols) != 2:
        raise EngineError("column_stack")
    r0, r1 = L.rseq(I, st, cols[0]), L.rseq(I, st, cols[1])
    excs, ok = I.may_raise(st, r0.length != r1.length, "ValueError", "all the input array dimensions must match", I.where(node))
    res = list(excs)
    if ok is not None:
        e0, e1 = r0.elem, r1.elem
        res.append((ok, ok.alloc(Seq2Val("real", r0.length, 2, lambda r, c: L.ite_val(c == 0, _as_real_elem(e0)(r), _as_real_elem(e1)(r))))))
    return res


@libfn("numpy.pad")
def _np_pad(I, st, pos, kws, node):
    a, pw_ = pos[0], pos[1]
    rs = L.rseq(I, st, a)
    if not (isinstance(pw_, TupV) and len(pw_.items) == 2 and conc_int(to_int(pw_.items[0])) == 0):
        raise EngineError("np.pad: only (0, k) padding is modelled")
    k = to_int(pw_.items[1])
    cv = kws.get("constant_values")
    if not (isinstance(cv, AnyV) and cv.tag == "nan"):
        raise EngineError("np.pad: only NaN padding is modelled")
    excs, ok = I.may_raise(st, k < 0, "ValueError", "index can't contain negative values", I.where(node))
    res = list(excs)
    if ok is not None:
        e, n = rs.elem, rs.length
        nanv = Num(z3.RealVal(0), "real")
        ref = L.new_seq(ok, "ndarray", "real", n + k, lambda i: L.ite_val(i < n, _as_real_elem(e)(i), nanv), nanmask=lambda i: i >= n)
        ok.heap[ref.id].valid_total = n
        ok.heap[ref.id].pad_src = rs
        res.append((ok, ref))
    return res


@libfn("numpy.nanmean")
def _np_nanmean(I, st, pos, kws, node):
    a = pos[0]
    ax = kws.get("axis")
    o = st.heap.get(a.id) if isinstance(a, Ref) else None
    if not (isinstance(o, Seq2Val) and ax is not None and conc_int(to_int(ax)) == 1):
        raise EngineError("nanmean: only axis=1 of a 2-D array is modelled")
    e2, nm = o.elem2, o.nanmask2
    I.need_sum = True
    rows, cols = o.rows, o.cols
    # the row mean over the non-NaN entries.  Model: padding NaNs form a suffix of the row-major layout
    # (true for pad(..., (0, k)) + reshape); the number of valid entries in row r is cnt(r).
    if nm is None:
        cntf = lambda r: cols
    else:
        total = getattr(o, "valid_total", None)
        if total is None:
            raise EngineError("nanmean: NaN layout unknown")
        cntf = lambda r: z3.If(total - r * cols >= cols, cols, z3.If(total - r * cols <= 0, z3.IntVal(0), total - r * cols))
    rr = z3.Int(fresh_name("r"))
    bad = z3.Exists([rr], z3.And(rr >= 0, rr < rows, cntf(rr) == 0))
    excs, ok = I.may_raise(st, bad, "ZeroDivisionError", "nanmean of an all-NaN row (nan)", I.where(node))
    res = list(excs)
    if ok is not None:
        src = getattr(o, "flat_src", None)
        if src is not None:
            # rows of reshape(pad(a)): the valid part of row r is a[r*cols : r*cols + cnt(r)]
            A = L.array_term(I, ok, src)
            res.append((ok, L.new_seq(ok, "ndarray", "real", rows,
                                      lambda i: Num(SUM(A, i * cols, i * cols + cntf(i)) / z3.ToReal(cntf(i)), "real"))))
        else:
            ROW = z3.Function(fresh_name("row"), z3.IntSort(), ARR)
            r, c = z3.Int(fresh_name("r")), z3.Int(fresh_name("c"))
            ok.assume(z3.ForAll([r, c], ROW(r)[c] == to_real(e2(r, c)), patterns=[ROW(r)[c]]))
            res.append((ok, L.new_seq(ok, "ndarray", "real", rows, lambda i: Num(SUM(ROW(i), z3.IntVal(0), cntf(i)) / z3.ToReal(cntf(i)), "real"))))
    return res


@libfn("numpy.concatenate")
def _np_concatenate(I, st, pos, kws, node):
    return I.specs.np_concatenate(I, st, pos, kws, node)


@libfn("numpy.where")
def _np_where(I, st, pos, kws, node):
    if len(pos) != 1:
        raise EngineError("np.where with 3 arguments")
    m = L.rseq(I, st, pos[0])
    if m.dtype != "bool":
        raise EngineError("np.where of non-bool")
    me = m.elem
    n = m.length
    Lw = z3.Int(fresh_name("nwhere"))
    ref = L.fresh_seq(st, "ndarray", "int", Lw, "where")
    W = st.heap[ref.id].arr
    POSF = z3.Function(fresh_name("wherepos"), z3.IntSort(), z3.IntSort())
    i, j = z3.Int(fresh_name("i")), z3.Int(fresh_name("j"))
    st.assume(z3.And(Lw >= 0, Lw <= n))
    # increasing enumeration of the true positions
    st.assume(z3.ForAll([i], z3.Implies(z3.And(i >= 0, i < Lw), z3.And(W[i] >= 0, W[i] < n, me(W[i]).t)), patterns=[W[i]]))
    st.assume(z3.ForAll([i, j], z3.Implies(z3.And(i >= 0, i < j, j < Lw), W[i] < W[j]), patterns=[z3.MultiPattern(W[i], W[j])]))
    st.assume(z3.ForAll([j], z3.Implies(z3.And(j >= 0, j < n, me(j).t), z3.And(POSF(j) >= 0, POSF(j) < Lw, W[POSF(j)] == j)),
                        patterns=[POSF(j)]))
    st.heap[ref.id].np_index = True
    st.heap[ref.id].where_of = (me, n, POSF)
    # DERIVED LIBRARY LEMMA (assumed, validated differentially):
    #   np.where(np.isin(X, V))[0] == C   when V is X.take(C) (possibly through np.unique) and X, C are strictly increasing
    pv = m.prov
    if pv and pv[0] == "isin":
        X, V = pv[1], pv[2]
        vp = V.prov
        if vp and vp[0] == "unique":
            vp = vp[1].prov
        if vp and vp[0] == "take" and getattr(vp[1], "src_id", 0) == getattr(X, "src_id", 1):
            C = vp[2]
            a_, b_ = z3.Int(fresh_name("i")), z3.Int(fresh_name("j"))
            incx = z3.ForAll([a_, b_], z3.Implies(z3.And(a_ >= 0, a_ < b_, b_ < X.length), to_real(X.elem(a_)) < to_real(X.elem(b_))))
            incc = z3.ForAll([a_, b_], z3.Implies(z3.And(a_ >= 0, a_ < b_, b_ < C.length), to_int(C.elem(a_)) < to_int(C.elem(b_))))
            inb = z3.ForAll([a_], z3.Implies(z3.And(a_ >= 0, a_ < C.length), z3.And(to_int(C.elem(a_)) >= 0, to_int(C.elem(a_)) < X.length)))
            st.assume(z3.Implies(z3.And(incx, incc, inb),
                                 z3.And(Lw == C.length, z3.ForAll([i], z3.Implies(z3.And(i >= 0, i < Lw), W[i] == to_int(C.elem(i))), patterns=[W[i]]))))
            I.assumed.add("derived library lemma: np.where(np.isin(x, x.take(c)))[0] == c for strictly increasing x and c")
        else:
            # DERIVED LIBRARY LEMMA (assumed, validated differentially): for strictly increasing X and V with every V[j] a member
            # of X, np.where(np.isin(X, V))[0] lists the positions of V[0], V[1], ... in X, in that order
            a_, b_ = z3.Int(fresh_name("i")), z3.Int(fresh_name("j"))
            incx = z3.ForAll([a_, b_], z3.Implies(z3.And(a_ >= 0, a_ < b_, b_ < X.length), to_real(X.elem(a_)) < to_real(X.elem(b_))))
            incv = z3.ForAll([a_, b_], z3.Implies(z3.And(a_ >= 0, a_ < b_, b_ < V.length), to_real(V.elem(a_)) < to_real(V.elem(b_))))
            mem = z3.ForAll([b_], z3.Implies(z3.And(b_ >= 0, b_ < V.length),
                                             z3.Exists([a_], z3.And(a_ >= 0, a_ < X.length, to_real(X.elem(a_)) == to_real(V.elem(b_))))))
            st.assume(z3.Implies(z3.And(incx, incv, mem),
                                 z3.And(Lw == V.length,
                                        z3.ForAll([i], z3.Implies(z3.And(i >= 0, i < Lw), to_real(X.elem(W[i])) == to_real(V.elem(i))), patterns=[W[i]]))))
            I.assumed.add("derived library lemma: np.where(np.isin(x, v))[0] lists the positions in x of v[0], v[1], ... for strictly "
                          "increasing x and v with every v[j] a member of x")
    return [(st, TupV([ref]))]


def _isin(I, st, pos, kws, node):
    a, b = pos[0], pos[1]
    ra, rb = L.rseq(I, st, a), L.rseq(I, st, b)
    ea, eb, nb = ra.elem, rb.elem, rb.length
    cl = rb.conc_len()

    def elem(i):
        if cl is not None and cl <= 8:
            return Num(z3.Or([to_real(ea(i)) == to_real(eb(z3.IntVal(k))) for k in range(cl)]) if cl else z3.BoolVal(False), "bool")
        j = z3.Int(fresh_name("j"))
        return Num(z3.Exists([j], z3.And(j >= 0, j < nb, to_real(ea(i)) == to_real(eb(j)))), "bool")
    ref = L.new_seq(st, "ndarray", "bool", ra.length, elem)
    st.heap[ref.id].prov = ("isin", ra, rb)
    return [(st, ref)]


LIBS["numpy.isin"] = _isin
LIBS["numpy.in1d"] = _isin


@libfn("numpy.unique")
def _np_unique(I, st, pos, kws, node):
    (a,) = pos
    ra = L.rseq(I, st, a)
    e, n = ra.elem, ra.length
    dt = "int" if ra.dtype == "int" else "real"
    Lu = z3.Int(fresh_name("nuniq"))
    ref = L.fresh_seq(st, "ndarray", dt, Lu, "uniq")
    U = st.heap[ref.id].arr
    SRC = z3.Function(fresh_name("usrc"), z3.IntSort(), z3.IntSort())
    PS = z3.Function(fresh_name("upos"), z3.IntSort(), z3.IntSort())
    i, j = z3.Int(fresh_name("i")), z3.Int(fresh_name("j"))
    st.assume(z3.And(Lu >= 0, Lu <= n, z3.Implies(n > 0, Lu > 0)))
    st.assume(z3.ForAll([i, j], z3.Implies(z3.And(i >= 0, i < j, j < Lu), U[i] < U[j]), patterns=[z3.MultiPattern(U[i], U[j])]))
    st.assume(z3.ForAll([i], z3.Implies(z3.And(i >= 0, i < Lu), z3.And(SRC(i) >= 0, SRC(i) < n, U[i] == e(SRC(i)).t)), patterns=[U[i]]))
    st.assume(z3.ForAll([j], z3.Implies(z3.And(j >= 0, j < n), z3.And(PS(j) >= 0, PS(j) < Lu, U[PS(j)] == e(j).t)), patterns=[PS(j)]))
    st.heap[ref.id].unique_of = (e, n, SRC, PS)
    # DERIVED LIBRARY LEMMA (assumed, validated differentially): unique of a strictly increasing sequence is the sequence
    a_, b_ = z3.Int(fresh_name("i")), z3.Int(fresh_name("j"))
    incr = z3.ForAll([a_, b_], z3.Implies(z3.And(a_ >= 0, a_ < b_, b_ < n), to_real(e(a_)) < to_real(e(b_))))
    st.assume(z3.Implies(incr, z3.And(Lu == n, z3.ForAll([i], z3.Implies(z3.And(i >= 0, i < n), U[i] == e(i).t), patterns=[U[i]]))))
    I.assumed.add("derived library lemma: np.unique of a strictly increasing array returns it unchanged")
    st.heap[ref.id].prov = ("unique", ra)
    return [(st, ref)]


@libfn("numpy.random.normal")
def _np_normal(I, st, pos, kws, node):
    loc = kws.get("loc", pos[0] if pos else RealN(0))
    scale = kws.get("scale", pos[1] if len(pos) > 1 else RealN(1))
    size = kws.get("size", pos[2] if len(pos) > 2 else NONE)
    if isinstance(size, TupV) and len(size.items) == 1:
        n = to_int(size.items[0])
    elif isinstance(size, Num):
        n = to_int(size)
    else:
        raise EngineError("np.random.normal size")
    if isinstance(scale, Ref):
        rs = L.rseq(I, st, scale)
        k = z3.Int(fresh_name("k"))
        neg = z3.Exists([k], z3.And(k >= 0, k < rs.length, to_real(rs.elem(k)) < 0))
        excs, ok = I.may_raise(st, z3.Or(z3.And(rs.length != n, rs.length != 1), neg), "ValueError", "shape mismatch: scale vs size / scale < 0", I.where(node))
    else:
        excs, ok = I.may_raise(st, to_real(scale) < 0, "ValueError", "scale < 0", I.where(node))
    res = list(excs)
    if ok is not None:
        ref = L.fresh_seq(ok, "ndarray", "real", n, "noise")
        ok.ghost.setdefault("normal_calls", []).append(dict(loc=loc, scale=scale, size=n, result=ref))
        res.append((ok, ref))
    return res


# =========================================================================== numerics (assumed contracts)

def _kw_plain(I, kws, allowed, what):
    for k in kws:
        if k not in allowed:
            raise EngineError(f"{what}: keyword {k} not modelled")


@libfn("numpy.interp")
def _np_interp(I, st, pos, kws, node):
    """ASSUMED: numpy.interp(new_x, x, y) with default left/right is the piecewise-linear interpolant of (x, y),
    constant outside [x[0], x[-1]]; result is an ndarray of len(new_x).  x must be increasing (not checked by numpy)."""
    nx, x, y = pos[0], pos[1], pos[2]
    rn, rx, ry = L.rseq(I, st, nx), L.rseq(I, st, x), L.rseq(I, st, y)
    excs, ok = I.may_raise(st, z3.Or(rx.length != ry.length, rx.length == 0), "ValueError", "fp and xp are not of the same length / empty", I.where(node))
    res = list(excs)
    if ok is None:
        return res
    st = ok
    ref = L.fresh_seq(st, "ndarray", "real", rn.length, "interp")
    R = st.heap[ref.id].arr
    K = z3.Function(fresh_name("interp_seg"), z3.IntSort(), z3.IntSort())
    i = z3.Int(fresh_name("i"))
    ex, ey, en, m = rx.elem, ry.elem, rn.elem, rx.length
    v = to_real(en(i))
    k = K(i)
    xk, xk1, yk, yk1 = to_real(ex(k)), to_real(ex(k + 1)), to_real(ey(k)), to_real(ey(k + 1))
    st.assume(forall_pat([i], z3.Implies(z3.And(i >= 0, i < rn.length), z3.And(
        z3.Implies(v <= to_real(ex(z3.IntVal(0))), R[i] == to_real(ey(z3.IntVal(0)))),
        z3.Implies(v >= to_real(ex(m - 1)), R[i] == to_real(ey(m - 1))),
        z3.Implies(z3.And(v > to_real(ex(z3.IntVal(0))), v < to_real(ex(m - 1))),
                   z3.And(k >= 0, k < m - 1, xk <= v, v <= xk1,
                          z3.Implies(v == xk, R[i] == yk), z3.Implies(v == xk1, R[i] == yk1),
                          z3.Implies(xk1 != xk, R[i] == yk + (yk1 - yk) * (v - xk) / (xk1 - xk)))))), [R[i]]))
    st.ghost.setdefault("lib_calls", []).append(dict(fn="numpy.interp", new_x=nx, x=x, y=y, kwargs=dict(kws), result=ref))
    if kws:
        I.assumed.add("np.interp: forwarded keyword arguments (left/right/period) are absent or leave the default behaviour")
    res.append((st, ref))
    return res


def _spline_object(I, st, kind, x, y, s_val, interpolating, kws):
    """a callable spline object g; ASSUMED: if `interpolating` then g(x[k]) == y[k]; smoothing condition otherwise"""
    G = z3.Function(fresh_name("spline"), z3.RealSort(), z3.RealSort())
    rx, ry = L.rseq(I, st, x), L.rseq(I, st, y)
    k = z3.Int(fresh_name("k"))
    cond = interpolating if z3.is_expr(interpolating) else z3.BoolVal(bool(interpolating))
    gx = G(to_real(rx.elem(k)))
    st.assume(z3.Implies(cond, forall_pat([k], z3.Implies(z3.And(k >= 0, k < rx.length), gx == to_real(ry.elem(k))), [gx])))
    fields = dict(fn=FunV("uninterp", fn=G, name="spline"), src_x=x, src_y=y, kind=StrV(kind))
    if s_val is not None:
        fields["s"] = s_val
    return st.alloc(ObjVal("ext:spline", fields))


@libfn("scipy.interpolate.CubicSpline")
def _cubic_spline(I, st, pos, kws, node):
    """ASSUMED: CubicSpline(x, y) interpolates (passes through every knot); ValueError unless x is strictly increasing
    with >= 2 points and len(x) == len(y)."""
    x, y = pos[0], pos[1]
    rx, ry = L.rseq(I, st, x), L.rseq(I, st, y)
    i, j = z3.Int(fresh_name("i")), z3.Int(fresh_name("j"))
    incr = z3.ForAll([i, j], z3.Implies(z3.And(i >= 0, i < j, j < rx.length), to_real(rx.elem(i)) < to_real(rx.elem(j))))
    excs, ok = I.may_raise(st, z3.Not(z3.And(rx.length >= 2, rx.length == ry.length, incr)), "ValueError",
                           "CubicSpline: x must be strictly increasing, >= 2 points, same length as y", I.where(node))
    res = list(excs)
    if ok is not None:
        if kws:
            I.assumed.add("CubicSpline: forwarded keyword arguments keep the interpolation property")
        res.append((ok, _spline_object(I, ok, "cubic", x, y, None, True, kws)))
    return res


@libfn("scipy.interpolate.splrep")
def _splrep(I, st, pos, kws, node):
    """ASSUMED: splrep(x, y, s=s) returns (t, c, k) of a cubic smoothing spline g with sum((y - g(x))**2) <= s*(1+tol),
    interpolating for s == 0; needs len(x) > 3, x increasing; with s absent/None and no weights, s = 0 (interpolating)."""
    x, y = pos[0], pos[1]
    rx, ry = L.rseq(I, st, x), L.rseq(I, st, y)
    s = kws.get("s")
    excs, ok = I.may_raise(st, z3.Not(z3.And(rx.length > 3, rx.length == ry.length)), "TypeError", "splrep: m > k must hold", I.where(node))
    res = list(excs)
    if ok is not None:
        t = TupV([AnyV("t"), AnyV("c"), AnyV("k")])
        ok.ghost.setdefault("lib_calls", []).append(dict(fn="scipy.interpolate.splrep", x=x, y=y, s=s, kwargs=dict(kws)))
        res.append((ok, t))
    return res


@libfn("scipy.interpolate.BSpline")
def _bspline(I, st, pos, kws, node):
    if len(pos) != 3 or not (isinstance(pos[0], AnyV) and pos[0].tag == "t"):
        raise EngineError("BSpline: only BSpline(*splrep(...)) is modelled")
    info = None
    for call in reversed(st.ghost.get("lib_calls", [])):
        if call["fn"] == "scipy.interpolate.splrep":
            info = call
            break
    if info is None:
        raise EngineError("BSpline without splrep")
    s = info["s"]
    if s is None or isinstance(s, NoneV):
        interpolating = True       # SciPy: "s = 0.0 (interpolating) if no weights are supplied"
        sval = RealN(0)
    elif isinstance(s, Num):
        interpolating = to_real(s) == 0
        sval = s
    elif isinstance(s, OptV):
        interpolating = z3.And(z3.Not(s.isnone), to_real(s.val) == 0)
        sval = s
    else:
        raise EngineError("splrep s")
    return [(st, _spline_object(I, st, "bspline", info["x"], info["y"], sval, interpolating, kws))]


@method("spline.__call__")
def _spline_call(I, st, selfv, pos, kws, node):
    o = st.heap[selfv.id]
    G = o.fields["fn"].fn
    (arg,) = pos
    if isinstance(arg, Num):
        return [(st, Num(G(to_real(arg)), "real"))]
    ra = L.rseq(I, st, arg)
    e = ra.elem
    return [(st, L.new_seq(st, "ndarray", "real", ra.length, lambda i: Num(G(to_real(e(i))), "real")))]


@libfn("numpy.loadtxt")
def _np_loadtxt(I, st, pos, kws, node):
    from . import oslib
    return oslib.np_loadtxt(I, st, pos, kws, node)


# =========================================================================== stdlib (assumed contracts)

@libfn("collections.namedtuple")
def _namedtuple(I, st, pos, kws, node):
    name, fields = pos[0], pos[1]
    rs = L.rseq(I, st, fields)
    n = rs.conc_len()
    fl = [rs.elem(z3.IntVal(k)).s for k in range(n)]
    return [(st, FunV("lib", name="collections.namedtuple.__new__", tname=name.s, fields=fl))]


def _nt_new(I, st, pos, kws, node, fv=None):
    raise EngineError("namedtuple constructor needs its class")


def call_namedtuple(I, st, fv, pos, kws, node):
    fields = fv.fields
    vals = list(pos)
    for f in fields[len(vals):]:
        if f not in kws:
            return [(st, Exc("TypeError", f"missing argument {f}", I.where(node)))]
        vals.append(kws[f])
    if len(vals) != len(fields) or any(k not in fields for k in kws):
        return [(st, Exc("TypeError", "namedtuple arguments", I.where(node)))]
    return [(st, NamedTupV(fv.tname, fields, vals))]


def _concrete_strs(vals):
    return all(isinstance(v, StrV) and v.concrete for v in vals)


@libfn("os.path.join", "posixpath.join")
def _path_join(I, st, pos, kws, node):
    if _concrete_strs(pos):
        import posixpath
        return [(st, StrV(posixpath.join(*[p.s for p in pos])))]
    # ASSUMED: the joined components are relative (no leading '/'): join = concatenation with '/'
    I.assumed.add("os.path.join: later components are relative paths (plain concatenation with '/')")
    t = pos[0].term()
    for p in pos[1:]:
        t = z3.Concat(t, z3.StringVal("/"), p.term())
    return [(st, StrV(t))]


ENV_SET = z3.Function("ENV_SET", z3.StringSort(), z3.BoolSort())
ENV_VAL = z3.Function("ENV_VAL", z3.StringSort(), z3.StringSort())
EXPANDUSER = z3.Function("EXPANDUSER", z3.StringSort(), z3.StringSort())


@libfn("os.environ.get")
def _environ_get(I, st, pos, kws, node):
    """ASSUMED: the process environment is a fixed map during the call"""
    name = pos[0]
    default = pos[1] if len(pos) > 1 else NONE
    if isinstance(default, NoneV):
        raise EngineError("environ.get without default")
    return [(st, StrV(z3.If(ENV_SET(name.term()), ENV_VAL(name.term()), default.term())))]


@libfn("os.path.expanduser", "posixpath.expanduser")
def _expanduser(I, st, pos, kws, node):
    return [(st, StrV(EXPANDUSER(pos[0].term())))]


@libfn("os.makedirs")
def _makedirs(I, st, pos, kws, node):
    """ASSUMED: os.makedirs(p, exist_ok=True) creates directories only (no file content is touched)"""
    ok = kws.get("exist_ok")
    res = []
    if not (isinstance(ok, Num) and z3.is_true(z3.simplify(ok.t))):
        bad = I.fork(st)
        res.append((bad, Exc("FileExistsError", "makedirs", I.where(node))))
    st.ghost.setdefault("fs_actions", []).append(("makedirs", pos[0]))
    res.append((st, NONE))
    return res



@libfn("builtins.super")
def _super(I, st, pos, kws, node):
    cls = st.frame.clsqual
    selfv = st.env.get("self")
    if cls is None or selfv is None or pos:
        raise EngineError("super() outside a method")
    mro = I.modules.class_mro(cls)
    if len(mro) < 2:
        raise EngineError(f"super(): {cls} has no repository base class")
    return [(st, FunV("super", selfv=selfv, parent=mro[1][2], name="super"))]


# ---------------------------------------------------------------- tolerant comparisons / search (assumed NumPy contracts)

def _tol(kws, pos, i_r, i_a):
    rtol = kws.get("rtol", pos[i_r] if len(pos) > i_r else None)
    atol = kws.get("atol", pos[i_a] if len(pos) > i_a else None)
    r = to_real(rtol) if rtol is not None else z3.RealVal("1/100000")
    a = to_real(atol) if atol is not None else z3.RealVal("1/100000000")
    return r, a


def _close_term(x, y, r, a):
    d = x - y
    ab = z3.If(d >= 0, d, -d)
    ay = z3.If(y >= 0, y, -y)
    return ab <= a + r * ay


@libfn("numpy.isclose")
def _np_isclose(I, st, pos, kws, node):
    """ASSUMED: isclose(a, b) = |a - b| <= atol + rtol*|b| (defaults 1e-8, 1e-5), element-wise"""
    a, b = pos[0], pos[1]
    r, at = _tol(kws, pos, 2, 3)
    if isinstance(a, Num) and isinstance(b, Num):
        return [(st, Num(_close_term(to_real(a), to_real(b), r, at), "bool"))]
    ra = L.rseq(I, st, a) if isinstance(a, Ref) else None
    rb = L.rseq(I, st, b) if isinstance(b, Ref) else None
    n = (ra or rb).length
    ea = ra.elem if ra else (lambda i: a)
    eb = rb.elem if rb else (lambda i: b)
    return [(st, L.new_seq(st, "ndarray", "bool", n, lambda i: Num(_close_term(to_real(ea(i)), to_real(eb(i)), r, at), "bool")))]


@libfn("numpy.allclose")
def _np_allclose(I, st, pos, kws, node):
    a, b = pos[0], pos[1]
    r, at = _tol(kws, pos, 2, 3)
    ra = L.rseq(I, st, a) if isinstance(a, Ref) else None
    rb = L.rseq(I, st, b) if isinstance(b, Ref) else None
    if ra is None and rb is None:
        return [(st, Num(_close_term(to_real(a), to_real(b), r, at), "bool"))]
    n = (ra or rb).length
    ea = ra.elem if ra else (lambda i: a)
    eb = rb.elem if rb else (lambda i: b)
    i = z3.Int(fresh_name("i"))
    return [(st, Num(z3.ForAll([i], z3.Implies(z3.And(i >= 0, i < n), _close_term(to_real(ea(i)), to_real(eb(i)), r, at))), "bool"))]


@libfn("numpy.searchsorted")
def _np_searchsorted(I, st, pos, kws, node):
    """ASSUMED (a sorted ascending): side='left' -> number of elements < v, side='right' -> number of elements <= v"""
    a, v = pos[0], pos[1]
    side = kws.get("side", pos[2] if len(pos) > 2 else StrV("left"))
    ra = L.rseq(I, st, a)
    if not isinstance(v, Num):
        raise EngineError("searchsorted of an array of values")
    left = side.term() == z3.StringVal("left")
    k = z3.Int(fresh_name("ss"))
    i = z3.Int(fresh_name("i"))
    e, vt = ra.elem, to_real(v)
    below = lambda t: z3.If(left, to_real(e(t)) < vt, to_real(e(t)) <= vt)
    st.assume(z3.And(k >= 0, k <= ra.length,
                     z3.ForAll([i], z3.Implies(z3.And(i >= 0, i < ra.length), z3.And(z3.Implies(i < k, below(i)), z3.Implies(i >= k, z3.Not(below(i))))))))
    return [(st, Num(k, "int"))]


@libfn("numpy.full")
def _np_full(I, st, pos, kws, node):
    shape, v = pos[0], pos[1]
    n = to_int(shape.items[0]) if isinstance(shape, TupV) else to_int(shape)
    vv = Num(to_real(v), "real")
    return [(st, L.new_seq(st, "ndarray", "real", n, lambda i: vv))]
