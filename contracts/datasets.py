"""C18 / C19 - dataset registry and remote cache (datasets/_base.py).

The loaders (19 bundled, 76 remote) are verified against the *contracts* of the two generic loading routines, which record
a ghost event with the arguments they were called with (file, url, checksum, cache slot)."""
from pyvc.spec import *

B = 'traffic_weaver.datasets._base.'
LOAD = B + 'load_dataset'
RES = B + 'load_csv_dataset_from_resources'
REMOTE = B + 'load_csv_dataset_from_remote'
HOME = B + 'get_data_home'

contract(RES, params=dict(file_name=Str, resources_module=Str, unpack_dataset_columns=Bool),
         returns=Union(Seq2(Real), Tuple(Seq(Real), Seq(Real))), event='resource_load', no_rt=True, assumed_contract=True)


@ensures(RES)
def res_shape(file_name, resources_module, unpack_dataset_columns, result):
    return (is_tuple(result) if unpack_dataset_columns else is_2d(result))


contract(LOAD, params=dict(dataset=Str, unpack_dataset_columns=Bool, kwargs=Kwargs), returns=Any, no_rt=True)


@raises(LOAD, 'ValueError')
def load_unknown(dataset, unpack_dataset_columns, kwargs):
    """unknown dataset names are rejected"""
    return not known_loader(dataset)


contract(REMOTE, params=dict(remote=Any, dataset_filename=Str, dataset_folder=Str, data_home=Opt(Str), download_if_missing=Bool,
                             download_even_if_available=Bool, validate_checksum=Bool, n_retries=Int, delay=Real, gzip=Bool,
                             unpack_dataset_columns=Bool),
         returns=Union(Seq2(Real), Tuple(Seq(Real), Seq(Real))), event='remote_load', no_rt=True,
         raises_only=['OSError', 'URLError', 'TimeoutError', 'Exception'])


@ensures(REMOTE)
def remote_shape(remote, dataset_filename, dataset_folder, data_home, download_if_missing, download_even_if_available,
                 validate_checksum, n_retries, delay, gzip, unpack_dataset_columns, result):
    return (is_tuple(result) if unpack_dataset_columns else is_2d(result))


contract(HOME, params=dict(data_home=Opt(Str)), returns=Str, no_rt=True)


@ensures(HOME)
def home_post(data_home, result):
    """the cache lives under the directory named by TRAFFIC_WEAVER_DATA when it is set"""
    return result == expanduser((env_value('TRAFFIC_WEAVER_DATA') if env_is_set('TRAFFIC_WEAVER_DATA') else '~/.traffic-weaver-data')
                                if data_home is None else data_home)
