"""Loads the real repository sources (AST only) and resolves global names."""
import ast
import hashlib
import os

SRC_ROOT = os.environ.get("PYVC_SRC_ROOT", "/repo/src")


class ModuleInfo:
    def __init__(self, name, path, tree, source):
        self.name = name
        self.path = path
        self.tree = tree
        self.source = source
        self.sha256 = hashlib.sha256(source.encode()).hexdigest()
        self.globals = {}   # name -> binding tuple
        self.is_pkg = os.path.basename(path) == "__init__.py"


class Modules:
    def __init__(self, root=None):
        self.root = root or SRC_ROOT
        self.cache = {}

    def path_of(self, modname):
        p = os.path.join(self.root, *modname.split("."))
        if os.path.isdir(p) and os.path.exists(os.path.join(p, "__init__.py")):
            return os.path.join(p, "__init__.py")
        if os.path.exists(p + ".py"):
            return p + ".py"
        return None

    def is_repo_module(self, modname):
        return self.path_of(modname) is not None

    def load(self, modname):
        if modname in self.cache:
            return self.cache[modname]
        path = self.path_of(modname)
        if path is None:
            raise KeyError(modname)
        src = open(path).read()
        tree = ast.parse(src, filename=path)
        mi = ModuleInfo(modname, path, tree, src)
        self.cache[modname] = mi
        self._index(mi)
        return mi

    def _abs(self, mi, module, level):
        if level == 0:
            return module
        parts = mi.name.split(".")
        if not mi.is_pkg:
            parts = parts[:-1]
        if level > 1:
            parts = parts[: len(parts) - (level - 1)]
        return ".".join(parts + ([module] if module else []))

    def _index(self, mi):
        def visit(stmts):
            for node in stmts:
                if isinstance(node, ast.FunctionDef):
                    mi.globals[node.name] = ("def", node, mi.name)
                elif isinstance(node, ast.ClassDef):
                    mi.globals[node.name] = ("class", node, mi.name)
                elif isinstance(node, ast.Import):
                    for a in node.names:
                        if a.asname:
                            mi.globals[a.asname] = ("module", a.name)
                        else:
                            mi.globals[a.name.split(".")[0]] = ("module", a.name.split(".")[0])
                elif isinstance(node, ast.ImportFrom):
                    base = self._abs(mi, node.module, node.level)
                    for a in node.names:
                        mi.globals[a.asname or a.name] = ("from", base, a.name)
                elif isinstance(node, ast.Assign) and len(node.targets) == 1 and isinstance(node.targets[0], ast.Name):
                    mi.globals[node.targets[0].id] = ("assign", node.value, mi.name)
                elif isinstance(node, (ast.If, ast.Try)):
                    pass
        visit(mi.tree.body)

    def resolve_from(self, base, name):
        """`from base import name` -> binding"""
        if self.is_repo_module(base):
            m = self.load(base)
            if name in m.globals:
                b = m.globals[name]
                if b[0] == "from":
                    return self.resolve_from(b[1], b[2])
                return b
            sub = base + "." + name
            if self.is_repo_module(sub):
                return ("module", sub)
            return ("missing", base, name)
        return ("ext", base + "." + name)

    def find_function(self, qual):
        """qual = 'pkg.mod.func' or 'pkg.mod.Class.method' -> (FunctionDef, module name, class name|None)"""
        parts = qual.split(".")
        for cut in range(len(parts) - 1, 0, -1):
            modname = ".".join(parts[:cut])
            if self.is_repo_module(modname):
                mi = self.load(modname)
                rest = parts[cut:]
                if len(rest) == 1:
                    b = mi.globals.get(rest[0])
                    if b and b[0] == "def":
                        return b[1], modname, None
                elif len(rest) == 2:
                    b = mi.globals.get(rest[0])
                    if b and b[0] == "class":
                        for n in b[1].body:
                            if isinstance(n, ast.FunctionDef) and n.name == rest[1]:
                                return n, modname, rest[0]
                return None
        return None

    def find_class(self, qual):
        parts = qual.split(".")
        modname = ".".join(parts[:-1])
        if self.is_repo_module(modname):
            b = self.load(modname).globals.get(parts[-1])
            if b and b[0] == "class":
                return b[1], modname
            if b and b[0] == "from":
                r = self.resolve_from(b[1], b[2])
                if r[0] == "class":
                    return r[1], r[2]
        return None

    def class_mro(self, qual):
        """list of (ClassDef, modname, qualname) following single inheritance inside the repo"""
        out = []
        cur = qual
        while cur:
            r = self.find_class(cur)
            if r is None:
                break
            cd, modname = r
            out.append((cd, modname, modname + "." + cd.name))
            nxt = None
            for b in cd.bases:
                if isinstance(b, ast.Name):
                    mi = self.load(modname)
                    g = mi.globals.get(b.id)
                    if g and g[0] == "class":
                        nxt = modname + "." + b.id
                    elif g and g[0] == "from":
                        rr = self.resolve_from(g[1], g[2])
                        if rr[0] == "class":
                            nxt = rr[2] + "." + rr[1].name
                    break
            cur = nxt
        return out

    def find_method(self, clsqual, name):
        for cd, modname, q in self.class_mro(clsqual):
            for n in cd.body:
                if isinstance(n, ast.FunctionDef) and n.name == name:
                    return n, modname, q
        return None
