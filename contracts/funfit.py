"""C06 (shape functions) - funfit.py: the five elementary shape functions equal their documented closed forms for every
exponent and hit both end points.  Points are (x, y) pairs; t = (x - x0) / (x1 - x0)."""
from pyvc.spec import *

F = 'traffic_weaver.funfit.'
PT = Tuple(Real, Real)


def tt(x, xy_0, xy_1):
    return (x - xy_0[0]) / (xy_1[0] - xy_0[0])


def inside(x, xy_0, xy_1):
    return xy_0[0] < xy_1[0] and xy_0[0] <= x and x <= xy_1[0]


# ------------------------------------------------------------------------------ lin_fit

contract(F + 'lin_fit', params=dict(x=Real, xy_0=PT, xy_1=PT), returns=Real)


@requires(F + 'lin_fit')
def lin_pre(x, xy_0, xy_1):
    return xy_0[0] != xy_1[0]


@ensures(F + 'lin_fit')
def lin_post(x, xy_0, xy_1, result):
    """y0 + (y1 - y0) * t"""
    return eq(result, xy_0[1] + (xy_1[1] - xy_0[1]) * tt(x, xy_0, xy_1))


@ensures(F + 'lin_fit', export=False)
def lin_ends(x, xy_0, xy_1, result):
    return implies(x == xy_0[0], eq(result, xy_0[1])) and implies(x == xy_1[0], eq(result, xy_1[1]))


# ------------------------------------------------------------------------------ exp_fit

contract(F + 'exp_fit', params=dict(x=Real, xy_0=PT, xy_1=PT, alpha=Real), returns=Real)


@requires(F + 'exp_fit')
def exp_pre(x, xy_0, xy_1, alpha):
    return inside(x, xy_0, xy_1) and alpha > 0


@ensures(F + 'exp_fit')
def exp_post(x, xy_0, xy_1, alpha, result):
    """y0 + (y1 - y0) * t^alpha"""
    return eq(result, xy_0[1] + (xy_1[1] - xy_0[1]) * pw(tt(x, xy_0, xy_1), alpha))


@ensures(F + 'exp_fit', export=False)
def exp_ends(x, xy_0, xy_1, alpha, result):
    return implies(x == xy_0[0], eq(result, xy_0[1])) and implies(x == xy_1[0], eq(result, xy_1[1]))


# --------------------------------------------------------------------------- exp_xy_fit

contract(F + 'exp_xy_fit', params=dict(x=Real, xy_0=PT, xy_1=PT, alpha=Real), returns=Real)


@requires(F + 'exp_xy_fit')
def expxy_pre(x, xy_0, xy_1, alpha):
    return inside(x, xy_0, xy_1) and alpha > 0


@ensures(F + 'exp_xy_fit')
def expxy_post(x, xy_0, xy_1, alpha, result):
    """y0 + (y1 - y0) * (1 - (1 - t)^alpha)"""
    return eq(result, xy_0[1] + (xy_1[1] - xy_0[1]) * (1 - pw((xy_1[0] - x) / (xy_1[0] - xy_0[0]), alpha)))


@ensures(F + 'exp_xy_fit', export=False)
def expxy_ends(x, xy_0, xy_1, alpha, result):
    return implies(x == xy_0[0], eq(result, xy_0[1])) and implies(x == xy_1[0], eq(result, xy_1[1]))


# -------------------------------------------------------------------------- exp_lin_fit

contract(F + 'exp_lin_fit', params=dict(x=Real, xy_0=PT, xy_1=PT, alpha=Real), returns=Real)


@requires(F + 'exp_lin_fit')
def explin_pre(x, xy_0, xy_1, alpha):
    return inside(x, xy_0, xy_1) and alpha > 0


@ensures(F + 'exp_lin_fit')
def explin_post(x, xy_0, xy_1, alpha, result):
    """lin * t + exp * (1 - t): the power shape near x0 blending into the straight line near x1"""
    return eq(result, (xy_0[1] + (xy_1[1] - xy_0[1]) * tt(x, xy_0, xy_1)) * tt(x, xy_0, xy_1)
              + (xy_0[1] + (xy_1[1] - xy_0[1]) * pw(tt(x, xy_0, xy_1), alpha)) * ((xy_1[0] - x) / (xy_1[0] - xy_0[0])))


@ensures(F + 'exp_lin_fit', export=False)
def explin_ends(x, xy_0, xy_1, alpha, result):
    return implies(x == xy_0[0], eq(result, xy_0[1])) and implies(x == xy_1[0], eq(result, xy_1[1]))


# ----------------------------------------------------------------------- lin_exp_xy_fit

contract(F + 'lin_exp_xy_fit', params=dict(x=Real, xy_0=PT, xy_1=PT, alpha=Real), returns=Real)


@requires(F + 'lin_exp_xy_fit')
def linexpxy_pre(x, xy_0, xy_1, alpha):
    return inside(x, xy_0, xy_1) and alpha > 0


@ensures(F + 'lin_exp_xy_fit')
def linexpxy_post(x, xy_0, xy_1, alpha, result):
    """exp_xy * t + lin * (1 - t)"""
    return eq(result, (xy_0[1] + (xy_1[1] - xy_0[1]) * (1 - pw((xy_1[0] - x) / (xy_1[0] - xy_0[0]), alpha))) * tt(x, xy_0, xy_1)
              + (xy_0[1] + (xy_1[1] - xy_0[1]) * tt(x, xy_0, xy_1)) * ((xy_1[0] - x) / (xy_1[0] - xy_0[0])))


@ensures(F + 'lin_exp_xy_fit', export=False)
def linexpxy_ends(x, xy_0, xy_1, alpha, result):
    return implies(x == xy_0[0], eq(result, xy_0[1])) and implies(x == xy_1[0], eq(result, xy_1[1]))
