"""Lemma library.

* SUM lemmas: closed formulas over the uninterpreted `SUM(A, lo, hi)` (with its two unfolding axioms).  Each lemma is
  PROVED on every run by induction on `hi` (obligation: unfolding axioms + induction hypothesis for all smaller `hi`
  => statement at `hi`), and only then made available as a hypothesis to the functions whose contract lists it
  (`contract(..., lemmas=[...])`).
* contract-level lemmas (composition lemmas) are registered with @lemma and produce obligations from contracts only.
"""
import z3

from .core import *

LEMMAS = {}


def lemma(name):
    def deco(f):
        LEMMAS[name] = f
        return f
    return deco


def lemma_obligations(db, modules, name):
    if name in SUM_LEMMAS:
        return sum_lemma_obligations(name)
    if name not in LEMMAS:
        raise EngineError(f"unknown lemma {name}")
    return LEMMAS[name](db, modules)


# ----------------------------------------------------------------------------- SUM lemmas

def _vars():
    A = z3.Const("lA", ARR)
    B = z3.Const("lB", ARR)
    C = z3.Const("lC", ARR)
    lo, hi, mid, lo2, m = z3.Ints("llo lhi lmid llo2 lm")
    c = z3.Real("lc")
    i = z3.Int("li")
    return A, B, C, lo, hi, mid, lo2, m, c, i


def _stmt(name, hi_term=None):
    """returns (universally quantified variables, body(hi) as a function of the induction variable, trigger terms)"""
    A, B, C, lo, hi, mid, lo2, m, c, i = _vars()
    h = hi if hi_term is None else hi_term
    if name == "SUM_NONNEG":
        body = z3.Implies(z3.ForAll([i], z3.Implies(z3.And(i >= lo, i < h), A[i] >= 0)), SUM(A, lo, h) >= 0)
        return [A, lo], hi, body, [SUM(A, lo, h)]
    if name == "SUM_POS":
        w = z3.Int("lw")
        body = z3.Implies(z3.And(z3.ForAll([i], z3.Implies(z3.And(i >= lo, i < h), A[i] >= 0)),
                                 z3.Exists([w], z3.And(w >= lo, w < h, A[w] > 0))), SUM(A, lo, h) > 0)
        return [A, lo], hi, body, [SUM(A, lo, h)]
    if name == "SUM_CONG":
        body = z3.Implies(z3.ForAll([i], z3.Implies(z3.And(i >= lo, i < h), A[i] == B[i])), SUM(A, lo, h) == SUM(B, lo, h))
        return [A, B, lo], hi, body, [z3.MultiPattern(SUM(A, lo, h), SUM(B, lo, h))]
    if name == "SUM_SPLIT":
        body = z3.Implies(z3.And(lo <= mid, mid <= h), SUM(A, lo, h) == SUM(A, lo, mid) + SUM(A, mid, h))
        return [A, lo, mid], hi, body, [z3.MultiPattern(SUM(A, lo, mid), SUM(A, mid, h))]
    if name == "SUM_SHIFT":
        # sum over [lo, lo+m) of A equals sum over [lo2, lo2+m) of B when the entries agree position by position
        body = z3.Implies(z3.And(h >= 0, z3.ForAll([i], z3.Implies(z3.And(i >= 0, i < h), A[lo + i] == B[lo2 + i]))),
                          SUM(A, lo, lo + h) == SUM(B, lo2, lo2 + h))
        return [A, B, lo, lo2], hi, body, [z3.MultiPattern(SUM(A, lo, lo + h), SUM(B, lo2, lo2 + h))]
    if name == "SUM_LIN":
        body = z3.Implies(z3.ForAll([i], z3.Implies(z3.And(i >= lo, i < h), C[i] == A[i] + c * B[i])),
                          SUM(C, lo, h) == SUM(A, lo, h) + c * SUM(B, lo, h))
        return [A, B, C, c, lo], hi, body, [z3.MultiPattern(SUM(C, lo, h), SUM(A, lo, h), SUM(B, lo, h), c * SUM(B, lo, h))]
    if name == "SUM_CONST":
        body = z3.Implies(z3.And(lo <= h, z3.ForAll([i], z3.Implies(z3.And(i >= lo, i < h), A[i] == c))),
                          SUM(A, lo, h) == z3.ToReal(h - lo) * c)
        return [A, c, lo], hi, body, [z3.MultiPattern(SUM(A, lo, h), z3.ToReal(h - lo) * c)]
    if name == "SUM_SCALE":
        body = z3.Implies(z3.ForAll([i], z3.Implies(z3.And(i >= lo, i < h), C[i] == c * A[i])), SUM(C, lo, h) == c * SUM(A, lo, h))
        return [A, C, c, lo], hi, body, [z3.MultiPattern(SUM(C, lo, h), SUM(A, lo, h))]
    if name == "SUM_CONG_RANGE":
        # arrays that agree on [lo, h) have equal sums over every sub-range of [lo, h)
        a, b = z3.Ints("la lb")
        body = z3.Implies(z3.ForAll([i], z3.Implies(z3.And(i >= lo, i < h), A[i] == B[i])),
                          z3.ForAll([a, b], z3.Implies(z3.And(lo <= a, a <= b, b <= h), SUM(A, a, b) == SUM(B, a, b)),
                                    patterns=[SUM(A, a, b)]))
        return [A, B, lo], hi, body, None
    if name == "MINMAX_EXT":
        # pointwise equal arrays have equal minimum and maximum (proved from the defining axioms of MINF/MAXF, no induction)
        body = z3.Implies(z3.And(h >= 1, z3.ForAll([i], z3.Implies(z3.And(i >= 0, i < h), A[i] == B[i]))),
                          z3.And(MINF(A, h) == MINF(B, h), MAXF(A, h) == MAXF(B, h)))
        return [A, B], hi, body, None
    if name == "ARR_MONO":
        # adjacent strict increase implies pairwise strict increase on [lo, h)
        j = z3.Int("lj")
        adj = z3.ForAll([i], z3.Implies(z3.And(i >= lo, i < h - 1), A[i] < A[i + 1]))
        pair = z3.ForAll([i, j], z3.Implies(z3.And(i >= lo, i < j, j < h), A[i] < A[j]))
        return [A, lo], hi, z3.Implies(adj, pair), None
    raise EngineError(f"unknown SUM lemma {name}")


SUM_LEMMAS = ["SUM_NONNEG", "SUM_POS", "SUM_CONG", "SUM_SPLIT", "SUM_SHIFT", "SUM_LIN", "SUM_CONST", "SUM_SCALE", "ARR_MONO", "MINMAX_EXT", "SUM_CONG_RANGE"]


def sum_lemma_axiom(name):
    vs, hi, body, pats = _stmt(name)
    if pats is None:
        return z3.ForAll(vs + [hi], body)
    try:
        return z3.ForAll(vs + [hi], body, patterns=pats)
    except z3.Z3Exception:
        return z3.ForAll(vs + [hi], body)


def sum_lemma_obligations(name):
    """strong induction on hi:  (forall h < hi0 . Stmt(h))  =>  Stmt(hi0)   for arbitrary fixed other variables"""
    vs, hi, body, pats = _stmt(name)
    if name == "MINMAX_EXT":
        A, B = vs
        ax = []
        for X in (A, B):
            ax += extreme_axioms(X, hi, True) + extreme_axioms(X, hi, False)
        return [Obligation(f"lemma::{name}::from-definitions", ax, body, "lemma", "", func="lemma", clause=name)]
    # well-founded: the induction hypothesis is available only for base <= h < hi0 (base = lo, or 0 for SUM_SHIFT),
    # so the measure hi0 - base is a natural number whenever the hypothesis is used
    base = z3.IntVal(0) if name == "SUM_SHIFT" else z3.Int("llo")
    hyp = z3.ForAll([hi], z3.Implies(z3.And(base <= hi, hi < z3.Int("lhi0")), body))
    goal = z3.substitute(body, (hi, z3.Int("lhi0")))
    deps = [sum_lemma_axiom(d) for d in SUM_DEPS.get(name, [])]     # earlier lemmas (proved on their own, no cycle)
    if name in ("SUM_CONG_RANGE",):
        # the conclusion is universally quantified over the sub-range (a, b): skolemise it by hand so that the two SUM terms
        # of the goal are ground and can be unfolded once
        A, B, lo_ = vs
        a0, b0, h0, i = z3.Ints("la0 lb0 lhi0 li")
        prem = z3.ForAll([i], z3.Implies(z3.And(i >= lo_, i < h0), A[i] == B[i]))
        goal = z3.Implies(z3.And(prem, lo_ <= a0, a0 <= b0, b0 <= h0), SUM(A, a0, b0) == SUM(B, a0, b0))
        ax = sum_axioms_nonrecursive() + [z3.Implies(b0 > a0, SUM(X, a0, b0) == SUM(X, a0, b0 - 1) + X[b0 - 1]) for X in (A, B)]
    else:
        # ground unfolding of every SUM term of the goal (one step is what the induction step needs); the recursive
        # axiom itself is a matching loop and is left out
        ax = sum_axioms_nonrecursive()
        seen, stack = set(), [goal]
        while stack:
            t = stack.pop()
            if t.get_id() in seen:
                continue
            seen.add(t.get_id())
            if z3.is_quantifier(t):
                stack.append(t.body())
                continue
            if z3.is_app(t):
                if t.decl().name() == "SUM" and not any(z3.is_var(c) for c in _all_subterms(t)):
                    X, l_, h_ = t.children()
                    ax.append(z3.Implies(h_ > l_, SUM(X, l_, h_) == SUM(X, l_, h_ - 1) + X[h_ - 1]))
                stack.extend(t.children())
    o = Obligation(f"lemma::{name}::induction-step", ax + deps + [hyp], goal, "lemma", "", func="lemma", clause=name)
    return [o]


def _all_subterms(t):
    out, stack = [], [t]
    while stack:
        x = stack.pop()
        out.append(x)
        if z3.is_app(x):
            stack.extend(x.children())
    return out


SUM_DEPS = {"SUM_POS": ["SUM_NONNEG"]}
