"""Discharge of obligations: one SMT query per obligation, in a process pool."""
import multiprocessing as mp
import os
import subprocess
import tempfile
import time

import z3

from .core import pow_axioms, sum_axioms, POW, SUM

TIMEOUT_MS = int(os.environ.get("PYVC_TIMEOUT_MS", "20000"))


def to_smt2(ob, extra_axioms=()):
    s = z3.Solver()
    for h in ob.hyps:
        s.add(h)
    for a in extra_axioms:
        s.add(a)
    s.add(z3.Not(ob.goal))
    return s.to_smt2()


def _uses(ob, name):
    txt = ob._smt
    return name in txt


Z3_CLI = os.environ.get("PYVC_Z3", "z3-new")
SCHEDULE = ((0, 4), (7, 6), (42, 12), (1234, 25))     # (random seed, hard wall-clock seconds)


def _run(args):
    """one obligation: z3 CLI in a subprocess (hard timeout), escalating schedule of seeds/budgets"""
    idx, smt, timeout_ms, seeds = args
    t0 = time.time()
    sched = SCHEDULE if len(seeds) > 1 else ((0, max(1, timeout_ms // 1000)),)
    fd, path = tempfile.mkstemp(suffix=".smt2", prefix="pyvc_")
    with os.fdopen(fd, "w") as f:
        f.write(smt)
    last, info = "unknown", ""
    try:
        for seed, secs in sched:
            cmd = [Z3_CLI, f"-T:{secs}", f"smt.random_seed={seed}", f"sat.random_seed={seed}", path]
            try:
                out = subprocess.run(cmd, capture_output=True, text=True, timeout=secs + 5).stdout
            except subprocess.TimeoutExpired:
                out = "timeout"
            first = out.strip().splitlines()[0].strip() if out.strip() else "unknown"
            if first == "unsat":
                return idx, "unsat", "", (time.time() - t0) * 1000, "z3-5.1" + (f"(seed {seed})" if seed else "")
            if first == "sat":
                try:
                    m = subprocess.run([Z3_CLI, f"-T:{secs}", "-model", path], capture_output=True, text=True, timeout=secs + 5).stdout
                except subprocess.TimeoutExpired:
                    m = ""
                return idx, "sat", m[:6000], (time.time() - t0) * 1000, "z3-5.1"
            last, info = "unknown", first
    finally:
        os.unlink(path)
    return idx, last, info, (time.time() - t0) * 1000, "z3-5.1"


def _cvc5(smt, timeout_s=20):
    with tempfile.NamedTemporaryFile("w", suffix=".smt2", delete=False) as f:
        f.write("(set-logic ALL)\n" + smt)
        path = f.name
    try:
        out = subprocess.run(["/usr/bin/cvc5", f"--tlimit={timeout_s * 1000}", path], capture_output=True, text=True, timeout=timeout_s + 5)
        r = out.stdout.strip().splitlines()[0] if out.stdout.strip() else "unknown"
    except Exception:
        r = "unknown"
    finally:
        os.unlink(path)
    return r


def discharge(obls, workers=None, timeout_ms=None, second_backend=False):
    """sets ob.status in {'unsat','sat','unknown','trivial','error'}"""
    timeout_ms = timeout_ms or TIMEOUT_MS
    workers = workers or min(16, os.cpu_count() or 4)
    todo = []
    pax, sax = None, None
    for i, ob in enumerate(obls):
        if ob.status == "trivial":
            ob.time_ms = 0.0
            ob.backend = "simplifier"
            continue
        g = z3.simplify(ob.goal)
        if z3.is_true(g):
            ob.status = "trivial"
            ob.time_ms = 0.0
            ob.backend = "simplifier"
            continue
        smt = to_smt2(ob)
        extra = []
        if "POW" in smt:
            pax = pax or pow_axioms()
            extra += pax
        if "SUM" in smt:
            sax = sax or sum_axioms()
            extra += sax
        lem = getattr(ob, "lemmas", None)
        if lem:
            from .lemmas import sum_lemma_axiom
            extra += [sum_lemma_axiom(n) for n in lem]
            if "SUM" not in smt:
                sax = sax or sum_axioms()
                extra += sax
        if extra:
            smt = to_smt2(ob, extra)
        ob._smt = smt
        if ob.kind.startswith("canary"):
            todo.append((i, smt, 1500, (0,)))
        else:
            todo.append((i, smt, timeout_ms, (0, 7, 42)))
    if todo:
        if workers > 1 and len(todo) > 1:
            from concurrent.futures import ThreadPoolExecutor
            with ThreadPoolExecutor(max_workers=min(workers, len(todo))) as pool:
                results = list(pool.map(_run, todo))
        else:
            results = [_run(t) for t in todo]
        for idx, status, info, ms, backend in results:
            ob = obls[idx]
            ob.status = status
            ob.time_ms = ms
            ob.backend = backend
            ob.model = info
    if second_backend:
        for ob in obls:
            if ob.status == "unknown" and hasattr(ob, "_smt"):
                r = _cvc5(ob._smt)
                if r == "unsat":
                    ob.status = "unsat"
                    ob.backend = "cvc5-1.0.3"
    return obls
