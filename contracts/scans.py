"""C10 - nearest-sample search: contracts of the three two-pointer scans and the dispatcher.

Top-level postconditions are written from the statement of C10 (definitional form: "largest
element <= query", "smallest element >= query", "nearest, ties to the lower one"); the loop
invariants are written from the code (sorted_array_utils.py).
"""
from pyvc.spec import *

M = 'traffic_weaver.sorted_array_utils.'
LOWER = M + 'find_closest_lower_equal_element_indices_to_values'
HIGHER = M + 'find_closest_higher_equal_element_indices_to_values'
CLOSEST = M + 'find_closest_lower_or_higher_element_indices_to_values'
DISPATCH = M + 'find_closest_element_indices_to_values'


# ---------------------------------------------------------------- specification functions

def spec_lower(x, v, r, fill):
    return ((r == (0 if fill else -1)) if v < x[0] else
            (0 <= r and r < len(x) and x[r] <= v and forall(range(len(x)), lambda i: implies(x[i] <= v, i <= r))))


def spec_higher(x, v, r, fill):
    return ((r == ((len(x) - 1) if fill else len(x))) if v > x[len(x) - 1] else
            (0 <= r and r < len(x) and x[r] >= v and forall(range(len(x)), lambda i: implies(x[i] >= v, i >= r))))


def spec_closest(x, v, r):
    return (0 <= r and r < len(x)
            and forall(range(len(x)), lambda i: absr(x[r] - v) <= absr(x[i] - v)
                       and implies(absr(x[i] - v) == absr(x[r] - v), r <= i)))


def sorted_inputs(x, lookup):
    return len(x) >= 1 and len(lookup) >= 1 and strictly_increasing(x) and non_decreasing(lookup)


def lookup_cursor(lookup, lookup_it, lookup_val, lookup_idx):
    """`lookup_val` is lookup[lookup_idx], or None iff the queries are exhausted"""
    return (0 <= lookup_idx and lookup_idx <= len(lookup)
            and iff(lookup_val is None, lookup_idx == len(lookup))
            and implies(lookup_val is not None, lookup_val == lookup[lookup_idx])
            and it_pos(lookup_it) == min(lookup_idx + 1, len(lookup)))


def x_cursor(x, x_it, x_next_val, x_idx):
    """`x_next_val` is x[x_idx + 1], or None iff x_idx is the last index"""
    return (0 <= x_idx and x_idx < len(x)
            and iff(x_next_val is None, x_idx + 1 == len(x))
            and implies(x_next_val is not None, x_next_val == x[x_idx + 1])
            and it_pos(x_it) == min(x_idx + 2, len(x)))


# ------------------------------------------------------------------------------- lower

contract(LOWER, params=dict(x=Seq(Real, kind='arraylike'), lookup=Seq(Real, kind='arraylike'), fill_not_valid=Bool),
         returns=Seq(Int), generator='gen_lower')


@requires(LOWER)
def lower_pre(x, lookup, fill_not_valid):
    return sorted_inputs(x, lookup)


@ensures(LOWER)
def lower_post(x, lookup, fill_not_valid, result):
    return (len(result) == len(lookup) and is_ndarray(result)
            and forall(range(len(lookup)), lambda j: spec_lower(x, lookup[j], result[j], fill_not_valid)))


@invariant(LOWER, loop=1)
def lower_inv1(x, lookup, fill_not_valid, indices, x_it, x_val, x_next_val, x_idx, lookup_it, lookup_val, lookup_idx):
    return (sorted_inputs(x, lookup) and len(indices) == len(lookup)
            and x_idx == 0 and x_val == x[0]
            and x_cursor(x, x_it, x_next_val, x_idx)
            and lookup_cursor(lookup, lookup_it, lookup_val, lookup_idx)
            and forall(range(lookup_idx), lambda j: spec_lower(x, lookup[j], indices[j], fill_not_valid)))


@decreases(LOWER, loop=1)
def lower_dec1(lookup, lookup_idx):
    return len(lookup) - lookup_idx


@invariant(LOWER, loop=2)
def lower_inv2(x, lookup, fill_not_valid, indices, x_it, x_next_val, x_idx, lookup_it, lookup_val, lookup_idx):
    return (sorted_inputs(x, lookup) and len(indices) == len(lookup)
            and x_cursor(x, x_it, x_next_val, x_idx)
            and lookup_cursor(lookup, lookup_it, lookup_val, lookup_idx)
            and implies(lookup_val is not None, x[x_idx] <= lookup_val)
            and forall(range(lookup_idx), lambda j: spec_lower(x, lookup[j], indices[j], fill_not_valid)))


@decreases(LOWER, loop=2)
def lower_dec2(lookup, lookup_idx):
    return len(lookup) - lookup_idx


@invariant(LOWER, loop=3)
def lower_inv3(x, lookup, fill_not_valid, indices, x_it, x_next_val, x_idx, lookup_it, lookup_val, lookup_idx):
    return (lookup_val is not None
            and lower_inv2(x, lookup, fill_not_valid, indices, x_it, x_next_val, x_idx, lookup_it, lookup_val, lookup_idx))


@decreases(LOWER, loop=3)
def lower_dec3(x, x_idx):
    return len(x) - x_idx


# ------------------------------------------------------------------------------ higher

contract(HIGHER, params=dict(x=Seq(Real, kind='arraylike'), lookup=Seq(Real, kind='arraylike'), fill_not_valid=Bool),
         returns=Seq(Int), generator='gen_lower')


@requires(HIGHER)
def higher_pre(x, lookup, fill_not_valid):
    return sorted_inputs(x, lookup)


@ensures(HIGHER)
def higher_post(x, lookup, fill_not_valid, result):
    return (len(result) == len(lookup) and is_ndarray(result)
            and forall(range(len(lookup)), lambda j: spec_higher(x, lookup[j], result[j], fill_not_valid)))


@invariant(HIGHER, loop=1)
def higher_inv1(x, lookup, fill_not_valid, indices, x_it, x_val, x_next_val, x_idx, lookup_it, lookup_val, lookup_idx):
    return (sorted_inputs(x, lookup) and len(indices) == len(lookup)
            and x_idx == 0 and x_val == x[0]
            and x_cursor(x, x_it, x_next_val, x_idx)
            and lookup_cursor(lookup, lookup_it, lookup_val, lookup_idx)
            and forall(range(lookup_idx), lambda j: spec_higher(x, lookup[j], indices[j], fill_not_valid)))


@decreases(HIGHER, loop=1)
def higher_dec1(lookup, lookup_idx):
    return len(lookup) - lookup_idx


@invariant(HIGHER, loop=2)
def higher_inv2(x, lookup, fill_not_valid, indices, x_it, x_next_val, x_idx, lookup_it, lookup_val, lookup_idx):
    return (sorted_inputs(x, lookup) and len(indices) == len(lookup)
            and x_cursor(x, x_it, x_next_val, x_idx)
            and lookup_cursor(lookup, lookup_it, lookup_val, lookup_idx)
            and implies(lookup_val is not None, x[x_idx] < lookup_val)
            and forall(range(lookup_idx), lambda j: spec_higher(x, lookup[j], indices[j], fill_not_valid)))


@decreases(HIGHER, loop=2)
def higher_dec2(lookup, lookup_idx):
    return len(lookup) - lookup_idx


@invariant(HIGHER, loop=3)
def higher_inv3(x, lookup, fill_not_valid, indices, x_it, x_next_val, x_idx, lookup_it, lookup_val, lookup_idx):
    return (lookup_val is not None
            and higher_inv2(x, lookup, fill_not_valid, indices, x_it, x_next_val, x_idx, lookup_it, lookup_val, lookup_idx))


@decreases(HIGHER, loop=3)
def higher_dec3(x, x_idx):
    return len(x) - x_idx


# ----------------------------------------------------------------------------- closest

contract(CLOSEST, params=dict(x=Seq(Real, kind='arraylike'), lookup=Seq(Real, kind='arraylike')), returns=Seq(Int),
         generator='gen_closest')


@requires(CLOSEST)
def closest_pre(x, lookup):
    return sorted_inputs(x, lookup)


@ensures(CLOSEST)
def closest_post(x, lookup, result):
    return (len(result) == len(lookup) and is_ndarray(result)
            and forall(range(len(lookup)), lambda j: spec_closest(x, lookup[j], result[j])))


@invariant(CLOSEST, loop=1)
def closest_inv1(x, lookup, indices, x_it, x_val, x_next_val, x_idx, lookup_it, lookup_val, lookup_idx):
    return (sorted_inputs(x, lookup) and len(indices) == len(lookup)
            and x_idx == 0 and x_val == x[0]
            and x_cursor(x, x_it, x_next_val, x_idx)
            and lookup_cursor(lookup, lookup_it, lookup_val, lookup_idx)
            and forall(range(lookup_idx), lambda j: spec_closest(x, lookup[j], indices[j])))


@decreases(CLOSEST, loop=1)
def closest_dec1(lookup, lookup_idx):
    return len(lookup) - lookup_idx


@invariant(CLOSEST, loop=2)
def closest_inv2(x, lookup, indices, x_it, x_val, x_next_val, x_idx, lookup_it, lookup_val, lookup_idx):
    return (sorted_inputs(x, lookup) and len(indices) == len(lookup)
            and x_val == x[x_idx]
            and x_cursor(x, x_it, x_next_val, x_idx)
            and lookup_cursor(lookup, lookup_it, lookup_val, lookup_idx)
            and implies(lookup_val is not None, x[x_idx] < lookup_val)
            and forall(range(lookup_idx), lambda j: spec_closest(x, lookup[j], indices[j])))


@decreases(CLOSEST, loop=2)
def closest_dec2(lookup, lookup_idx):
    return len(lookup) - lookup_idx


@invariant(CLOSEST, loop=3)
def closest_inv3(x, lookup, indices, x_it, x_val, x_next_val, x_idx, lookup_it, lookup_val, lookup_idx):
    return (lookup_val is not None
            and closest_inv2(x, lookup, indices, x_it, x_val, x_next_val, x_idx, lookup_it, lookup_val, lookup_idx))


@decreases(CLOSEST, loop=3)
def closest_dec3(x, x_idx):
    return len(x) - x_idx


# -------------------------------------------------------------------------- dispatcher

contract(DISPATCH, params=dict(x=Seq(Real, kind='arraylike'), lookup=Seq(Real, kind='arraylike'), strategy=Str,
                               fill_not_valid=Bool), returns=Seq(Int), generator='gen_dispatch')


@requires(DISPATCH)
def dispatch_pre(x, lookup, strategy, fill_not_valid):
    return sorted_inputs(x, lookup)


@raises(DISPATCH, 'ValueError')
def dispatch_unknown(x, lookup, strategy, fill_not_valid):
    return strategy != 'closest' and strategy != 'lower' and strategy != 'higher'


@ensures(DISPATCH)
def dispatch_post(x, lookup, strategy, fill_not_valid, result):
    return (len(result) == len(lookup) and is_ndarray(result)
            and forall(range(len(lookup)), lambda j:
                       spec_closest(x, lookup[j], result[j]) if strategy == 'closest' else
                       (spec_lower(x, lookup[j], result[j], fill_not_valid) if strategy == 'lower' else
                        spec_higher(x, lookup[j], result[j], fill_not_valid))))


# ------------------------------------------------------------------ run-time generators (bounded stand-in only)

def gen_scan_inputs(rnd):
    """strictly increasing x; queries equal to, adjacent (a few ulp / 1e-9 / 1e-7) to, between and beyond the elements"""
    import numpy as np
    n = rnd.randint(1, 6)
    x = np.cumsum([rnd.choice([0.5, 1.0, 1.5]) for _ in range(n)]) + rnd.choice([-4.0, -1.0, 0.0, 3.0])
    qs = []
    for _ in range(rnd.randint(1, 5)):
        e = float(rnd.choice(list(x)))
        mode = rnd.random()
        if mode < 0.3:
            qs.append(e)
        elif mode < 0.55:
            qs.append(e + rnd.choice([-1, 1]) * rnd.choice([np.spacing(e), 1e-9, 1e-7, 1e-6]))
        elif mode < 0.8:
            qs.append(e + rnd.choice([-0.25, 0.25, 0.5, -0.5]))
        else:
            qs.append(rnd.choice([x[0] - 1.0, x[-1] + 1.0, 0.0]))
    qs = sorted(qs)
    return x, np.array(qs)


def gen_lower(rnd):
    x, q = gen_scan_inputs(rnd)
    return dict(x=x if rnd.random() < 0.7 else x.tolist(), lookup=q if rnd.random() < 0.7 else q.tolist(), fill_not_valid=rnd.random() < 0.5)


def gen_closest(rnd):
    x, q = gen_scan_inputs(rnd)
    return dict(x=x, lookup=q)


def gen_dispatch(rnd):
    x, q = gen_scan_inputs(rnd)
    return dict(x=x, lookup=q, strategy=rnd.choice(['closest', 'lower', 'higher', 'nearest']), fill_not_valid=rnd.random() < 0.5)
