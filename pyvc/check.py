"""`./check <PID> [--tier quick|thorough]` - decide one property (see DESIGN.md §3).

exit 0  every obligation discharged (known findings printed as KNOWN-FINDING)
exit 1  VIOLATION property=<id> replay=<path> [no-failing-input-found]
exit 2  undecided (solver gave up on an obligation that is not in the lock)
exit 3  checker error
"""
import argparse
import hashlib
import json
import os
import subprocess
import sys
import time
import traceback

VERIF = os.path.dirname(os.path.dirname(os.path.abspath(__file__)))
sys.path.insert(0, VERIF)

from pyvc.core import EngineError, Unbound  # noqa: E402
from pyvc.modules import Modules  # noqa: E402
from pyvc.specs import SpecDB, verify_function  # noqa: E402
from pyvc.solve import discharge  # noqa: E402
from pyvc import lemmas as LM  # noqa: E402

TARGET_PY = os.environ.get("PYVC_TARGET_PYTHON", "/venv/bin/python")
REPO_SRC = os.environ.get("PYVC_SRC_ROOT", "/repo/src")


def load_props():
    import props
    return props.PROPS


def rt_env():
    env = dict(os.environ)
    env["PYTHONPATH"] = REPO_SRC + os.pathsep + VERIF
    env["TRAFFIC_WEAVER_VERIF"] = "1"
    env["PYVC_RT_KNOWN"] = os.path.join(VERIF, "known_findings.json")
    if RT_CLAUSES:
        env["PYVC_RT_CLAUSES"] = RT_CLAUSES
    return env


RT_CLAUSES = None      # regex of the bounded (assumed=) clause names that belong to the property being checked


def rt_search(contract_file, qual, seed, n, out, timeout=120):
    cmd = [TARGET_PY, "-m", "pyvc.rt_runner", "search", contract_file, qual, str(seed), str(n), out]
    try:
        subprocess.run(cmd, cwd=VERIF, env=rt_env(), capture_output=True, text=True, timeout=timeout)
    except subprocess.TimeoutExpired:
        return None
    if os.path.exists(out):
        try:
            return json.load(open(out))
        except Exception:
            return None
    return None


def rt_replay(path, timeout=120):
    try:
        if json.load(open(path)).get("kind") == "datasets":
            r = subprocess.run([TARGET_PY, "-m", "pyvc.rt_datasets", path + ".rerun"], cwd=VERIF, env=rt_env(), capture_output=True, text=True, timeout=timeout)
            return r.returncode, r.stdout + r.stderr
    except Exception:
        pass
    cmd = [TARGET_PY, "-m", "pyvc.rt_runner", "replay", path]
    r = subprocess.run(cmd, cwd=VERIF, env=rt_env(), capture_output=True, text=True, timeout=timeout)
    return r.returncode, r.stdout + r.stderr


def main():
    ap = argparse.ArgumentParser()
    ap.add_argument("pid")
    ap.add_argument("--tier", default=os.environ.get("VERIF_TIER", "quick"))
    ap.add_argument("--lock", action="store_true", help="(maintainer) rewrite this property's entry of obligations.lock.json")
    ap.add_argument("--replay")
    ap.add_argument("-v", action="store_true")
    a = ap.parse_args()
    if a.replay:
        rc, out = rt_replay(a.replay)
        print(out)
        return rc
    seed = int(os.environ.get("VERIF_SEED", "0") or 0)
    t0 = time.time()
    pid = a.pid
    props = load_props()
    if pid not in props:
        print(f"unknown property {pid}")
        return 3
    P = props[pid]
    global RT_CLAUSES
    RT_CLAUSES = P.get('monitor_clauses')
    os.makedirs(os.path.join(VERIF, "evidence"), exist_ok=True)
    os.makedirs(os.path.join(VERIF, "out", "replays"), exist_ok=True)
    try:
        return run(pid, P, a, seed, t0)
    except EngineError as e:
        traceback.print_exc()
        print(f"CHECKER-ERROR property={pid}: {e}")
        return 3
    except Exception as e:   # noqa
        traceback.print_exc()
        print(f"CHECKER-ERROR property={pid}: {type(e).__name__}: {e}")
        return 3


_WORK = None


def _verify_one(q):
    """worker (forked): generate the obligations of one function and serialise them"""
    db, mods, selected = _WORK
    from pyvc.solve import prepare
    try:
        r = verify_function(db, mods, q)
    except Unbound as e:
        return ("unbound", str(e))
    except EngineError as e:
        return ("error", f"{type(e).__name__}: {e}")
    except Exception as e:     # noqa
        import traceback
        return ("error", traceback.format_exc()[-1500:])
    obls = [o for o in r.obligations if selected(o)]
    r.obligations = _prepare_parallel(obls, prepare)
    return ("ok", r)


def _prepare_parallel(obls, prepare):
    """serialise the obligations of one (large) function in several forked children: the z3 terms live in this process and are
    inherited by fork; each child turns a slice into SMT-LIB text and sends the picklable records back through a pipe"""
    import pickle
    nchild = min(6, len(obls) // 40)
    if nchild < 2:
        return [prepare(o) for o in obls]
    slices = [list(range(i, len(obls), nchild)) for i in range(nchild)]
    pipes = []
    for sl in slices:
        rfd, wfd = os.pipe()
        pid = os.fork()
        if pid == 0:
            try:
                os.close(rfd)
                data = pickle.dumps([(i, prepare(obls[i])) for i in sl])
                with os.fdopen(wfd, "wb") as f:
                    f.write(data)
            finally:
                os._exit(0)
        os.close(wfd)
        pipes.append((pid, rfd))
    out = [None] * len(obls)
    for pid, rfd in pipes:
        with os.fdopen(rfd, "rb") as f:
            data = f.read()
        os.waitpid(pid, 0)
        for i, rec in pickle.loads(data):
            out[i] = rec
    for i, rec in enumerate(out):
        if rec is None:                  # a child died: do it here
            out[i] = prepare(obls[i])
    return out


def run(pid, P, a, seed, t0):
    db = SpecDB(os.path.join(VERIF, "contracts"))
    db.load()
    mods = Modules(REPO_SRC)
    results = []
    all_obls = []
    degraded = []
    import multiprocessing as mp
    import re as _re
    from pyvc.solve import prepare, discharge_records
    sel = P.get("select")

    def selected(o):
        if not sel or o.kind.startswith("canary"):
            return True
        for fpat, rx in sel:
            if fpat in o.func and not _re.search(rx, f"{o.kind}::{o.clause}"):
                return False
        return True

    global _WORK
    _WORK = (db, mods, selected)
    funcs = list(P["functions"])
    with mp.get_context("fork").Pool(min(14, max(1, len(funcs)))) as pool:
        outs = pool.map(_verify_one, funcs, chunksize=1)
    errors = []
    for q, out in zip(funcs, outs):
        if out[0] == "unbound":
            degraded.append((q, out[1]))
        elif out[0] == "error":
            # the function left the verifier's reach (unsupported construct / library call without a model): it is decided
            # by the bounded stand-in (run-time contract monitoring); without a failing input this stays a checker error
            errors.append((q, out[1]))
            degraded.append((q, "outside the verifier's reach: " + out[1][:300]))
        else:
            r = out[1]
            results.append(r)
            all_obls.extend(r.obligations)
    driver_info = None
    if P.get("driver") == "datasets":
        from pyvc import datasets_check
        recs, driver_info = datasets_check.obligations(db, mods, REPO_SRC)
        all_obls.extend(recs)
        out = os.path.join(VERIF, "out", "replays", f"{pid}_datasets_native.json")
        r = subprocess.run([TARGET_PY, "-m", "pyvc.rt_datasets", out], cwd=VERIF, env=rt_env(), capture_output=True, text=True, timeout=300)
        try:
            nat = json.load(open(out))
        except Exception:
            nat = dict(status="error", problems=[dict(name="?", problem=(r.stdout + r.stderr)[-400:])])
        driver_info["native"] = dict(status=nat.get("status"), bundled_files_ok=nat.get("bundled_files_ok"), problems=len(nat.get("problems", [])))
        driver_info["native_replay"] = out
    # derived library lemmas (assumptions about NumPy): validated differentially against the installed NumPy on every run that
    # used one; a failure means the trusted base is wrong -> checker error, never a verdict about the repository
    liblemma_info = None
    if any("derived library lemma" in x for r in results for x in r.assumed):
        out = os.path.join(VERIF, "out", "replays", f"{pid}_liblemmas.json")
        subprocess.run([TARGET_PY, "-m", "pyvc.rt_liblemmas", out, "1500" if a.tier != "thorough" else "20000", str(seed)],
                       cwd=VERIF, env=rt_env(), capture_output=True, text=True, timeout=600)
        try:
            liblemma_info = json.load(open(out))
        except Exception:
            liblemma_info = dict(status="error")
        if liblemma_info.get("status") != "ok":
            print(f"CHECKER-ERROR property={pid}: a derived library lemma does not hold for the installed NumPy: {json.dumps(liblemma_info)[:600]}")
            return 3
    lemma_obls = []
    lemma_names = list(P.get("lemmas", []))
    for r in results:
        for n in sorted(getattr(r, "lemmas_used", ())):
            if n not in lemma_names and n != "POW_MONO":
                lemma_names.append(n)
    for name in lemma_names:
        lemma_obls.extend(prepare(o) for o in LM.lemma_obligations(db, mods, name))
    all_obls.extend(lemma_obls)
    discharge_records(all_obls)
    # committed proof cache: an obligation that TIMED OUT in this run but whose SMT-LIB text is byte-identical to a query that
    # z3 discharged when the lock was made is accepted (the verdict of a solver on identical input does not depend on machine
    # load).  It is never used for `sat` answers, and every use is counted in the evidence.
    cache_path = os.path.join(VERIF, "proof_cache.json")
    pcache = json.load(open(cache_path)) if os.path.exists(cache_path) else {}
    cache_hits = 0
    for o in all_obls:
        if o.status == "unknown" and getattr(o, "h", None) and pcache.get(o.h) == "unsat" and not o.kind.startswith("canary"):
            o.status = "unsat"
            o.backend = "z3-5.1 (committed proof cache: identical query discharged earlier; timed out in this run)"
            cache_hits += 1
    solver_ms = sum(o.time_ms or 0 for o in all_obls)

    # ---- vacuity: canaries must NOT be provable
    real = [o for o in all_obls if not o.kind.startswith("canary")]
    canaries = [o for o in all_obls if o.kind.startswith("canary")]
    by_func = {}
    for o in canaries:
        by_func.setdefault((o.func, o.kind), []).append(o)
    for (f, k), os_ in by_func.items():
        if all(o.status == "unsat" for o in os_):
            print(f"CHECKER-ERROR property={pid}: vacuous contract - every {k} path of {f} is infeasible")
            return 3
    for r in results:
        if r.paths == 0 and not r.qual.startswith(("lemma:", "rt:")):
            print(f"CHECKER-ERROR property={pid}: vacuous - no path of {r.qual} reaches a return under its contract "
                  f"(a callee postcondition contradicts the caller's state, or the precondition is unsatisfiable)")
            return 3
    if not real and not degraded:
        print(f"CHECKER-ERROR property={pid}: zero obligations generated")
        return 3

    failed = [o for o in real if o.status not in ("unsat", "trivial")]
    keys = sorted({o.key() for o in real})
    lock_path = os.path.join(VERIF, "obligations.lock.json")
    lock = json.load(open(lock_path)) if os.path.exists(lock_path) else {}
    if a.lock:
        if failed:
            print("refusing to lock: failed obligations")
            for o in failed:
                print("  ", o.status, o.name)
        else:
            lock[pid] = keys
            json.dump(lock, open(lock_path, "w"), indent=1, sort_keys=True)
            for o in real:
                if getattr(o, "h", None) and o.status == "unsat" and "proof cache" not in (o.backend or ""):
                    pcache[o.h] = "unsat"
            json.dump(pcache, open(cache_path, "w"), indent=0, sort_keys=True)
            print(f"locked {len(keys)} obligation keys for {pid}")
    missing = [k for k in lock.get(pid, []) if k not in keys]
    # keys of degraded functions are not "missing": they are handled by the stand-in
    missing = [k for k in missing if not any(k.startswith(q + "::") for q, _ in degraded)]

    known = [k for k in json.load(open(os.path.join(VERIF, "known_findings.json"))).get("findings", [])
             if k.get("property") == pid and k.get("status") == "known"] if os.path.exists(os.path.join(VERIF, "known_findings.json")) else []

    violations = []
    undecided = []
    known_hit = []
    rt_stats = dict(searches=0, inputs_tried=0, inputs_valid=0)
    rt_known = {}

    def search_input(func, tag, seeds=(0, 1, 2), n=1500):
        c = db.get(func)
        if c is None or c.file is None:
            return None
        for s in seeds:
            out = os.path.join(VERIF, "out", "replays", f"{pid}_{tag}_{s}.json")
            if os.path.exists(out):
                os.unlink(out)
            d = rt_search(c.file, func, seed * 1000 + s, n, out)
            rt_stats["searches"] += 1
            if d:
                rt_stats["inputs_tried"] += d.get("tried", 0)
                rt_stats["inputs_valid"] += d.get("valid", 0)
                for kid, cnt in (d.get("known_hits") or {}).items():
                    rt_known[kid] = rt_known.get(kid, 0) + cnt
            if d and d.get("status") == "violation":
                return out, d
            if os.path.exists(out):
                os.unlink(out)
        return None

    if driver_info is not None:
        enum_failed = [o for o in failed if o.kind == "enumeration"]
        failed = [o for o in failed if o.kind != "enumeration"]
        if enum_failed or driver_info["native"]["status"] != "none":
            concrete = driver_info["native"]["status"] == "violation"
            path = driver_info["native_replay"]
            if enum_failed and not concrete:
                path = os.path.join(VERIF, "out", "replays", f"{pid}_enumeration.json")
                json.dump(dict(status="obligation-failed", property=pid, obligation=enum_failed[0].name,
                               failed_obligations=[o.name + " : " + (o.model or "") for o in enum_failed[:60]],
                               solver_output="concrete symbolic execution of load_dataset"), open(path, "w"), indent=1)
            for o in enum_failed[:8]:
                print(f"   failed: {o.name} {o.model[:120]}")
            violations.append((path, enum_failed[0] if enum_failed else None, concrete))
    # group failures by function, try to find a failing input for each group
    byf = {}
    for o in failed:
        byf.setdefault(o.func, []).append(o)
    for func, obs in byf.items():
        kf = [k for k in known if k.get("function") == func and all(any(o.key().endswith(pat) or pat in o.key() for pat in k["obligations"]) for o in obs)]
        if kf:
            # known finding: replay its witness natively; it must still fail the recorded clause
            k = kf[0]
            wpath = os.path.join(VERIF, k["witness"])
            rc, out = rt_replay(wpath)
            if rc == 1:
                known_hit.append((k, out.strip().splitlines()[-1] if out.strip() else ""))
                continue
        hid = hashlib.sha1(func.encode()).hexdigest()[:8]
        found = search_input(func, hid)
        ob = obs[0]
        if found:
            path, d = found
            d["obligation"] = ob.name
            d["failed_obligations"] = [o.name + " : " + o.status for o in obs]
            json.dump(d, open(path, "w"), indent=1)
            violations.append((path, ob, True))
        else:
            if all(o.status == "unknown" for o in obs) and not any(o.key() in lock.get(pid, []) for o in obs):
                undecided.extend(obs)
                continue
            path = os.path.join(VERIF, "out", "replays", f"{pid}_{hid}_obligation.json")
            json.dump(dict(status="obligation-failed", property=pid, function=func, obligation=ob.name,
                           failed_obligations=[o.name + " : " + o.status for o in obs],
                           solver_output=(ob.model or "")[:6000], source_sha=next((r.source_sha for r in results if r.qual == func), None)),
                      open(path, "w"), indent=1)
            violations.append((path, ob, False))
    missing_searched = {}
    for k in missing:
        path = os.path.join(VERIF, "out", "replays", f"{pid}_missing.json")
        json.dump(dict(status="obligation-missing", property=pid, obligation=k,
                       solver_output="an obligation discharged on the baseline tree is no longer generated (check or raise removed)"),
                  open(path, "w"), indent=1)
        func = k.split("::")[0]
        if func not in missing_searched:            # one search per function, not one per missing key
            missing_searched[func] = search_input(func, "missing") if db.get(func) else None
        found = missing_searched[func]
        if found:
            violations.append((found[0], None, True))
        else:
            violations.append((path, None, False))

    # ---- degraded functions and thorough tier: bounded monitoring of the run-time contracts
    monitor = []
    # a function that left the verifier's reach is no longer covered by its callers' proofs either (they were checked against
    # its contract): when anything is degraded, every function of the property is monitored deeply, callers included
    mon_funcs = list(dict.fromkeys([q for q, _ in degraded] + (P["functions"] if (a.tier == "thorough" or degraded) else [])
                                   + P.get("monitor_quick", [])))
    deg_set = {q for q, _ in degraded}
    for q in mon_funcs:
        c = db.get(q)
        if c is None or c.opts.get("no_rt"):
            continue
        hid = hashlib.sha1(q.encode()).hexdigest()[:8]
        deep = a.tier == "thorough" or q in deg_set
        wide = bool(deg_set) and not deep            # a caller / sibling of a degraded function: two seeds
        found = search_input(q, "mon" + hid, seeds=(0, 1, 2, 3) if deep else ((0, 1) if wide else (0,)), n=4000 if deep else (1500 if wide else 600))
        monitor.append(q)
        if found:
            violations.append((found[0], None, True))
            if deg_set and a.tier != "thorough":
                break          # one replayable failing input decides the run; the remaining stand-in searches are skipped

    discharged = sum(1 for o in real if o.status in ("unsat", "trivial"))
    level = P.get("level", "proof")
    if degraded or undecided or (discharged != len(real) and not violations):
        level = "other"
    ev = dict(
        property_id=pid, tier=a.tier, seed=seed, level=level,
        coverage=dict(
            obligations=len(real), discharged=discharged,
            checker_cmd=f"./check {pid} --tier {a.tier}",
            trusted_base=sorted(set(P.get("trusted", [])) | {"pyvc encoding of Python semantics (DESIGN.md 2.2)", "z3 5.1.0"}
                                | {f"library contract: {n}" for r in results for n in r.lib_used}),
            functions_under_contract=[dict(function=r.qual, source_sha256_16=r.source_sha, paths=r.paths, obligations=len([o for o in r.obligations if not o.kind.startswith("canary")]),
                                           inlined_callees=sorted(r.inlined)) for r in results],
            lemmas=[o.name for o in lemma_obls],
            solver_time_s=round(solver_ms / 1000, 3),
            back_ends=sorted({o.backend for o in real if o.backend}),
            samples=[dict(obligation=o.name, status=o.status, backend=o.backend, ms=round(o.time_ms or 0, 1)) for o in real[:12]],
            canaries=dict(total=len(canaries), not_refuted=sum(1 for o in canaries if o.status != "unsat")),
            proof_cache_fallbacks=cache_hits,
            bounded_monitoring=dict(functions=monitor, **rt_stats),
            degraded=[dict(function=q, reason=why, stand_in="run-time contract monitoring (bounded)") for q, why in degraded],
            explanation=P.get("explanation", ""),
            library_lemma_validation=liblemma_info,
            exhaustive=bool(driver_info),
            enumeration=driver_info,
        ),
        assumptions=sorted(set(P.get("assumptions", [])) | {x for r in results for x in r.assumed}),
        wall_s=round(time.time() - t0, 2),
        violations=len(violations),
    )
    if level != "proof":
        ev["coverage"]["explanation"] = (ev["coverage"]["explanation"] + " | NOT a proof-level run: "
                                         + "; ".join([f"{q}: {w}" for q, w in degraded] + [f"undecided: {o.name}" for o in undecided]))
    # evidence describes /repo; a run against a scratch copy (PYVC_SRC_ROOT, used to evaluate seeded changes) must not replace it
    ev_dir = os.path.join(VERIF, "evidence") if os.path.realpath(REPO_SRC) == "/repo/src" else os.path.join(VERIF, "out", "evidence_scratch")
    os.makedirs(ev_dir, exist_ok=True)
    json.dump(ev, open(os.path.join(ev_dir, f"{pid}.json"), "w"), indent=1)

    print(f"{pid}: functions={len(results)} obligations={len(real)} discharged={discharged} lemmas={len(lemma_obls)} "
          f"solver={solver_ms / 1000:.1f}s wall={time.time() - t0:.1f}s")
    if a.v:
        for o in real:
            print(f"   {o.status:8s} {o.time_ms or 0:8.0f}ms {o.name}")
    for k, line in known_hit:
        print(f"KNOWN-FINDING: property={pid} {k['what']} [{line}]")
    # listed findings of the run-time monitor: the committed witness is replayed natively and must still fail
    for k in [k for k in json.load(open(os.path.join(VERIF, "known_findings.json"))).get("findings", [])
              if k.get("status") == "known" and "match" in k and pid in k.get("properties", [k.get("property")])]:
        rc, out = rt_replay(os.path.join(VERIF, k["witness"]))
        if rc == 1:
            print(f"KNOWN-FINDING: property={pid} {k['what']} [witness {k['witness']} still fails; {rt_known.get(k['id'], 0)} further generated inputs of the same kind skipped]")
        elif rt_known.get(k["id"]):
            print(f"KNOWN-FINDING: property={pid} {k['what']} [{rt_known[k['id']]} generated inputs of this kind]")
    for o in failed:
        print(f"   failed: {o.status} {o.name}")
    for q, why in degraded:
        print(f"   degraded: {q}: {why}")
    if errors and not violations:
        for q, e in errors:
            print(f"CHECKER-ERROR property={pid}: {q}: {e}")
        return 3
    if violations:
        violations.sort(key=lambda v: not v[2])       # a violation with a replayable input first
        for path, ob, concrete in violations[:1]:
            rel = os.path.relpath(path, VERIF)
            print(f"VIOLATION property={pid} replay={rel}" + ("" if concrete else " no-failing-input-found"))
        return 1
    if undecided:
        for o in undecided:
            print(f"UNDECIDED obligation={o.name}")
        return 2
    return 0


if __name__ == "__main__":
    sys.exit(main())
