"""developer tool: per-obligation status / time / back end for the named functions or lemmas:  python3-vt tools/one_function.py <qualname> ..."""
import sys,time
sys.path.insert(0,'/verif')
from pyvc.modules import Modules
from pyvc.specs import SpecDB, verify_function
from pyvc.solve import discharge
db=SpecDB('/verif/contracts'); db.load(); mods=Modules()
for q in sys.argv[1:]:
    t=time.time(); r=verify_function(db,mods,q); print('gen',time.time()-t)
    t=time.time(); discharge(r.obligations); print('solve wall',time.time()-t)
    for o in r.obligations:
        print(f"{o.status:8s} {o.time_ms or 0:9.0f} {o.kind}::{o.clause} [{o.backend}]")
