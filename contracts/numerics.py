"""C13 (interpolation), C15 (noise), C16 (smoothing): the repository's part - dispatch, forwarding, own
'constant' interpolation - is proved; the numerical behaviour of numpy.interp / CubicSpline / splrep+BSpline /
numpy.random.normal is ASSUMED (library contracts in pyvc/libcalls.py)."""
from pyvc.spec import *
import contracts._num_rt as NRT      # run-time-only readings used by `assumed=` (bounded) clauses

P = 'traffic_weaver.process.'
PWC = P + '_piecewise_constant_interpolate'
INTERP = P + 'interpolate'
SMOOTH = P + 'spline_smooth'
NOISE = P + 'noise_gauss'


# ------------------------------------------------------- piecewise-constant interpolation (own code)

contract(PWC, params=dict(x=Seq(Real, kind='arraylike'), y=Seq(Real, kind='arraylike'), new_x=Seq(Real, kind='arraylike'),
                          left=Opt(Real)), returns=Seq(Real))


@requires(PWC)
def pwc_pre(x, y, new_x, left):
    return (len(x) >= 1 and len(y) == len(x) and len(new_x) >= 1 and strictly_increasing(x) and non_decreasing(new_x))


def last_at_or_before(x, v, k):
    return 0 <= k and k < len(x) and x[k] <= v and forall(range(len(x)), lambda i: implies(x[i] <= v, i <= k))


@ensures(PWC)
def pwc_post(x, y, new_x, left, result):
    """value of the last sample at or before the point; `left` (default: the first value) to the left of the data"""
    return (is_ndarray(result) and len(result) == len(new_x)
            and forall(range(len(new_x)), lambda j:
                       (result[j] == (y[0] if left is None else left)) if new_x[j] < x[0]
                       else exists(range(len(x)), lambda k: last_at_or_before(x, new_x[j], k) and result[j] == y[k])))


@ensures(PWC)
def pwc_exact_at_samples(x, y, new_x, left, result):
    """interpolating at an original abscissa returns the original value exactly"""
    return forall(range(len(new_x)), lambda j: forall(range(len(x)), lambda k: implies(new_x[j] == x[k], result[j] == y[k])))


# ---------------------------------------------------------------------------- interpolate

contract(INTERP, params=dict(x=Seq(Real, kind='arraylike'), y=Seq(Real, kind='arraylike'), new_x=Seq(Real, kind='arraylike'),
                             method=Str, kwargs=Kwargs), returns=Seq(Real), generator='gen_interp_fn')


@requires(INTERP)
def interp_pre(x, y, new_x, method, kwargs):
    return (len(x) >= 4 and len(y) == len(x) and len(new_x) >= 1 and strictly_increasing(x) and non_decreasing(new_x))


@raises(INTERP, 'ValueError')
def interp_unknown_method(x, y, new_x, method, kwargs):
    return method != 'linear' and method != 'constant' and method != 'cubic' and method != 'spline'


@ensures(INTERP)
def interp_shape(x, y, new_x, method, kwargs, result):
    return is_ndarray(result) and len(result) == len(new_x)


@ensures(INTERP)
def interp_exact_at_samples(x, y, new_x, method, kwargs, result):
    """interpolating at an original abscissa returns the original value (all four methods; for cubic/spline this rests
    on the assumed SciPy interpolation contract)"""
    return forall(range(len(new_x)), lambda j: forall(range(len(x)), lambda k: implies(new_x[j] == x[k], eq(result[j], y[k]))))


@ensures(INTERP)
def interp_constant(x, y, new_x, method, kwargs, result):
    return implies(method == 'constant', forall(range(len(new_x)), lambda j:
                   (result[j] == y[0]) if new_x[j] < x[0]
                   else exists(range(len(x)), lambda k: last_at_or_before(x, new_x[j], k) and result[j] == y[k])))


@ensures(INTERP)
def interp_linear(x, y, new_x, method, kwargs, result):
    """straight-line value between the two neighbouring samples, end values outside the data
    (this is the assumed numpy.interp contract; proved here: it is reached with the arguments in the right positions)"""
    return implies(method == 'linear', forall(range(len(new_x)), lambda j:
                   (result[j] == y[0]) if new_x[j] <= x[0] else
                   ((result[j] == y[len(x) - 1]) if new_x[j] >= x[len(x) - 1] else
                    exists(range(len(x) - 1), lambda k: x[k] <= new_x[j] and new_x[j] <= x[k + 1]
                           and eq(result[j], y[k] + (y[k + 1] - y[k]) * (new_x[j] - x[k]) / (x[k + 1] - x[k]))))))


@ensures(INTERP, assumed='bounded: run-time monitoring on generated inputs only (the numerics of numpy.interp / CubicSpline / '
                         'splrep are library behaviour)')
def interp_affine_rt_c13(x, y, new_x, method, kwargs, result):
    """every method except 'constant' reproduces affine data (to rounding), for grids inside and beyond the data range"""
    return NRT.affine_reproduced(x, y, new_x, method, result)


# --------------------------------------------------------------------------- spline_smooth

class_shape('ext:spline', fn=Fn(1), src_x=Seq(Real), src_y=Seq(Real), s=Real)

contract(SMOOTH, params=dict(x=Seq(Real), y=Seq(Real), s=Opt(Real)), returns=Obj('ext:spline'), generator='gen_smooth')


@requires(SMOOTH)
def smooth_pre(x, y, s):
    return len(x) >= 5 and len(y) == len(x) and strictly_increasing(x) and (True if s is None else s >= 0)


def same_seq(a, b):
    return len(a) == len(b) and forall(range(len(a)), lambda i: a[i] == b[i])


@ensures(SMOOTH, static_only=True)
def smooth_forwards(x, y, s, result):
    """x, y and s reach splrep unchanged; s omitted -> len(y) * std(y)**2; s = 0 is NOT replaced"""
    return (same_seq(result.src_x, x) and same_seq(result.src_y, y)
            and eq(result.s, (len(y) * (std_of(y) * std_of(y))) if s is None else s))


@ensures(SMOOTH, static_only=True)
def smooth_interpolates_for_zero(x, y, s, result):
    """with s == 0 the spline passes through every sample (assumed FITPACK contract)"""
    return implies(s is not None and s == 0, forall(range(len(x)), lambda k: result.fn(x[k]) == y[k]))


@ensures(SMOOTH, assumed='bounded: run-time monitoring on generated inputs only (FITPACK is outside the verifier)')
def smooth_rt_condition(x, y, s, result):
    """C16 read numerically: summed squared deviation at the samples <= s (0.1 % solver tolerance), identity for s = 0"""
    return NRT.smoothing_ok(x, y, s, result)


# ------------------------------------------------------------------------------ noise_gauss

contract(NOISE, params=dict(a=Seq(Real, kind='arraylike'), snr=Union(NoneT, Real, Seq(Real, kind='arraylike')), snr_in_db=Bool,
                            std=Real), returns=Seq(Real), lemmas=['SUM_NONNEG'])


@requires(NOISE)
def noise_pre(a, snr, snr_in_db, std):
    return (len(a) >= 1 and (std >= 0 if snr is None else True)
            # a signal-to-noise ratio in linear scale is a positive number (division by it, square root of the quotient)
            and (True if snr is None or snr_in_db else
                 (forall(range(len(snr)), lambda i: snr[i] > 0) if is_seq(snr) else snr > 0))
            and ((len(snr) == len(a)) if is_seq(snr) else True))


def mean_sq(a):
    return sum_range(0, len(a), lambda k: a[k] * a[k]) / len(a)


def noise_std(a, snr_i, snr_in_db):
    """sqrt(mean(y^2) / SNR) with SNR = 10^(snr/10) for decibel input or snr itself"""
    return pw(mean_sq(a) / (pw(10, snr_i / 10) if snr_in_db else snr_i), 0.5)


@ensures(NOISE)
def noise_shape(a, snr, snr_in_db, std, result):
    """the part of the postcondition a caller may use: a new array of the same length"""
    return is_ndarray(result) and len(result) == len(a)


@ensures(NOISE, export=False)           # refers to the ghost record of the np.random.normal calls of *this* activation
def noise_additive(a, snr, snr_in_db, std, result):
    """x/length unchanged; y changes only by the value drawn from numpy.random.normal, drawn once, zero mean"""
    return (n_normal_calls() == 1 and normal_loc(0) == 0 and normal_size(0) == len(a)
            and is_ndarray(result) and len(result) == len(a)
            and forall(range(len(a)), lambda i: eq(result[i], a[i] + normal_result(0)[i])))


@ensures(NOISE, export=False)
def noise_scale(a, snr, snr_in_db, std, result):
    """the standard deviation handed to numpy.random.normal follows the SNR definition"""
    return (eq(normal_scale(0), std) if snr is None else
            ((len(normal_scale(0)) == len(a)
              and forall(range(len(a)), lambda i: eq(normal_scale(0)[i], noise_std(a, snr[i], snr_in_db)))) if is_seq(snr)
             else eq(normal_scale(0), noise_std(a, snr, snr_in_db))))



# ------------------------------------------------------------------ run-time generators (bounded stand-in only)

def gen_interp_fn(rnd):
    """series of >= 4 points (uniform or not), affine / arbitrary data, sorted grids inside and beyond the data range that also
    hit original abscissae, all four methods and an unknown one"""
    import numpy as np
    m = rnd.randint(4, 12)
    x = np.cumsum([rnd.choice([0.25, 0.5, 1.0, 1.0, 2.0, 3.0]) for _ in range(m)]) + rnd.choice([-5.0, 0.0, 2.0, 100.0])
    if rnd.random() < 0.45:
        a, b = rnd.choice([-3.0, -0.5, 0.0, 0.25, 1.0, 7.0]), rnd.choice([-10.0, 0.0, 1.5, 40.0])
        y = a * x + b
    else:
        y = np.array([float(rnd.randint(-8, 8)) / 2 for _ in range(m)])
    span = float(x[-1] - x[0])
    lo = float(x[0]) - (rnd.choice([0.0, 0.1, 0.5]) * span if rnd.random() < 0.6 else 0.0)
    hi = float(x[-1]) + (rnd.choice([0.0, 0.1, 0.5]) * span if rnd.random() < 0.6 else 0.0)
    pts = [round(rnd.uniform(lo, hi), 3) for _ in range(rnd.randint(1, 9))] + [float(v) for v in x if rnd.random() < 0.4]
    new_x = np.array(sorted(pts))
    pick = lambda v: v if rnd.random() < 0.7 else v.tolist()    # noqa: E731
    return dict(x=pick(x), y=pick(y), new_x=pick(new_x), method=rnd.choice(['linear', 'constant', 'cubic', 'spline', 'spline', 'nearest']),
                kwargs={})


def gen_smooth(rnd):
    import numpy as np
    n = rnd.randint(5, 16)
    cur = float(rnd.randint(-4, 4)) / 2
    xs = []
    uniform = rnd.random() < 0.4
    for _ in range(n):
        xs.append(cur)
        cur += 1.0 if uniform else rnd.choice([0.5, 1.0, 1.5, 2.0, 0.25, 3.0])
    kind = rnd.random()
    if kind < 0.2:
        ys = [2.0 * v - 1.0 for v in xs]                                  # affine data
    elif kind < 0.6:
        ys = [float(rnd.randint(-6, 6)) / 2 for _ in range(n)]            # noisy
    else:
        ys = [np.sin(v) * 3 + rnd.uniform(-0.5, 0.5) for v in xs]         # smooth + noise
    s = rnd.choice([None, 0, 0.0, 1e-4, 1e-3, 5e-4, 0.01, 0.5, 2.0, 10.0, 100.0])
    return dict(x=np.array(xs, dtype=float), y=np.array(ys, dtype=float), s=s)
