"""regenerates MANIFEST.json from props.py (maintainer tool)"""
import json, sys
sys.path.insert(0, '/verif')
import props

ALL = [f"C{i:02d}" for i in range(1, 21)]
TEXT = {}
NA = {
}
checks = []
for pid in ALL:
    if pid not in props.PROPS:
        continue
    P = props.PROPS[pid]
    checks.append(dict(
        property_id=pid, quick_cmd=f"./check {pid} --tier quick", thorough_cmd=f"./check {pid} --tier thorough",
        evidence_file=f"/verif/evidence/{pid}.json", replay_cmd_template=f"./check {pid} --replay {{path}}", engine="pyvc",
        level_claimed=dict(category=P.get("level", "proof"), text=P["explanation"], design_ref=f"DESIGN.md §0A.1 and §4 {pid}"),
        level_note="; ".join(P.get("assumptions", [])) + "; trusted: pyvc's encoding of Python/NumPy semantics (DESIGN §2.2, §2.5), z3 5.1",
        technique=P.get("technique", "contract-based deductive verification: VCs generated from the real AST against sidecar contracts (pre/post, loop invariants, frame, exceptional postconditions, specification lemmas), discharged by z3"
                        + ("; bounded stand-in (labelled, never counted as proved): run-time monitoring of the same contracts on generated inputs" if P.get("monitor_quick") else ""))))
man = dict(
    version=1,
    setup_cmd="python3-vt -c \"import z3, sys; sys.path.insert(0,'/verif'); import pyvc.check\" && /venv/bin/python -c \"import numpy, scipy\" && z3-new --version",
    hooks=dict(guard="TRAFFIC_WEAVER_VERIF",
               enable="no source hooks are needed: contracts are sidecars under /verif/contracts and run-time wrappers are applied from outside /repo (the checks set TRAFFIC_WEAVER_VERIF=1, nothing in /repo reads it)",
               baseline_off_cmd="cd /repo && /venv/bin/python -m pytest -ra -q -p no:cacheprovider --timeout=900 --continue-on-collection-errors",
               source_commits=[], add_only=True),
    engines=[dict(name="pyvc", path="/verif/pyvc", serves_properties=[c["property_id"] for c in checks],
                  kind_free_text="contract-based deductive verifier for the Python/NumPy subset used by traffic-weaver: symbolic execution of the real AST (re-read from /repo/src on every run), sidecar contracts, loop invariants, lemma library proved by induction, z3 5.1 (CLI, hard timeouts)")],
    checks=checks,
    notes="see DESIGN.md section 0A (as built); known_findings.json lists repaired defects (fix: commits in /repo) and one known finding (C05-small-exponent)",
    not_applicable=[dict(property_id=p, reason=NA.get(p, "check not built yet (work in progress in this session)")) for p in ALL if p not in props.PROPS],
)
json.dump(man, open('/verif/MANIFEST.json', 'w'), indent=1)
import jsonschema
jsonschema.validate(man, json.load(open('/root/.vp/MANIFEST.schema.json')))
print("manifest ok:", [c["property_id"] for c in checks])
