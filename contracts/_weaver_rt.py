"""Run-time only (bounded stand-in) readings for Weaver clauses; never used by the verifier."""
import copy
import warnings

import numpy as np


def _converged(x, y, s):
    from traffic_weaver.process import spline_smooth
    with warnings.catch_warnings(record=True) as w:
        warnings.simplefilter("always")
        spline_smooth(np.asarray(x, dtype=float), np.asarray(y, dtype=float), s)
    return not any("iterations" in str(i.message) or "fp=s" in str(i.message) or "s too small" in str(i.message) or "ier=" in str(i.message) for i in w)


def spline_consistent(w, s, f):
    """C16: with zero smoothing the returned function passes through every sample of get(); otherwise the smoothing condition"""
    x, y = (np.asarray(v, dtype=float) for v in w.get())
    if not _converged(x, y, s):
        return True
    dev = float(((np.asarray(f(x), dtype=float) - y) ** 2).sum())
    target = len(y) * float(y.std()) ** 2 if s is None else s
    return dev <= target * 1.001 + 1e-9 * (1 + float((y ** 2).sum()))


def smooth_condition(w0, w1, s):
    x, y = (np.asarray(v, dtype=float) for v in w0.get())
    y1 = np.asarray(w1.get()[1], dtype=float)
    if y1.shape != y.shape or not _converged(x, y, s):
        return y1.shape == y.shape
    dev = float(((y1 - y) ** 2).sum())
    target = len(y) * float(y.std()) ** 2 if s is None else s
    return dev <= target * 1.001 + 1e-9 * (1 + float((y ** 2).sum()))
