"""Symbolic executor over the real Python AST of the repository (see DESIGN.md §2)."""
import ast
import builtins

import z3

from .core import *
from . import lib
from . import oslib  # noqa: F401  registers the OS / stdlib models


class Frame:
    def __init__(self, modname, funcqual, clsqual=None, closure=None):
        self.modname = modname
        self.funcqual = funcqual
        self.clsqual = clsqual
        self.closure = closure or {}


MAX_UNROLL = 80
MAX_PATHS = 6000


class Interp:
    def __init__(self, modules, specs, bounded=False):
        self.modules = modules
        self.specs = specs              # SpecDB (contracts + clause ASTs)
        self.bounded = bounded
        self.obligations = []
        self.dry = 0
        self.loop_ord = {}              # id(loop node) -> ordinal within its function
        self.inline_log = set()
        self.lib_used = set()
        self.assumed = set()
        self.unbound_invariants = []
        self.verifying = None           # qualname of the function under verification
        self.nopaths = 0
        self.hints = []
        self.lemmas_applied = set()
        self._indexed = set()

    # ------------------------------------------------------------ obligations

    def oblige(self, st, goal, kind, clause, where="", assume=True):
        """Emit an obligation `pc => goal` and assume the goal afterwards."""
        g = z3.simplify(goal) if z3.is_expr(goal) else z3.BoolVal(bool(goal))
        if not self.dry:
            if not z3.is_true(g):
                f = st.frame.funcqual if getattr(st, "frame", None) else ""
                # a conjunction is discharged conjunct by conjunct (smaller, more stable queries)
                def conjuncts(g_, depth=0):
                    # nested conjunctions that contain a quantified conjunct are split as well (forall-introduction works on a
                    # quantifier prefix only)
                    if z3.is_and(g_) and (depth == 0 or any(z3.is_quantifier(c_) for c_ in g_.children())):
                        out_ = []
                        for c_ in g_.children():
                            out_.extend(conjuncts(c_, depth + 1))
                        return out_
                    return [g_]
                parts = [p for p in conjuncts(goal) if not z3.is_true(z3.simplify(p))] if z3.is_expr(goal) and z3.is_and(goal) else [goal]
                if not (1 < len(parts) <= 12):
                    parts = [goal]
                for pi, part in enumerate(parts):
                    name = f"{f}::{kind}::{clause}@{where}#{len(self.obligations)}" + (f".{pi}" if len(parts) > 1 else "")
                    self.obligations.append(Obligation(name, st.pc, part, kind, where, func=self.verifying or f, clause=clause))
            else:
                f = st.frame.funcqual if getattr(st, "frame", None) else ""
                o = Obligation(f"{f}::{kind}::{clause}@{where}#{len(self.obligations)}", [], z3.BoolVal(True), kind, where,
                               func=self.verifying or f, clause=clause)
                o.status = "trivial"
                self.obligations.append(o)
        if assume:
            st.assume(goal)

    def canary(self, st, kind, where=""):
        """vacuity guard: `pc => False` must NOT be provable for at least one path of each kind"""
        if self.dry:
            return
        f = st.frame.funcqual if getattr(st, "frame", None) else ""
        o = Obligation(f"{f}::{kind}@{where}#{len(self.obligations)}", st.pc, z3.BoolVal(False), kind, where,
                       func=self.verifying or f, clause=kind)
        self.obligations.append(o)

    def may_raise(self, st, cond, cls, msg="", where=None):
        """Fork on a raising condition.  Returns (list of exceptional outcomes, ok-state or None)."""
        c = z3.simplify(cond) if z3.is_expr(cond) else z3.BoolVal(bool(cond))
        if z3.is_false(c):
            return [], st
        if z3.is_true(c):
            return [(st, Exc(cls, msg, where))], None
        bad = st.fork()
        bad.frame = st.frame
        bad.assume(c)
        st.assume(z3.Not(c))
        return [(bad, Exc(cls, msg, where))], st

    # ------------------------------------------------------------ helpers

    def fork(self, st):
        s = st.fork()
        s.frame = st.frame
        return s

    def where(self, node):
        return f"L{getattr(node, 'lineno', '?')}"

    def bind(self, outcomes, f):
        res = []
        for st, v in outcomes:
            if isinstance(v, Exc):
                res.append((st, v))
            else:
                res.extend(f(st, v))
        if len(res) > MAX_PATHS:
            raise EngineError("path explosion")
        return res

    def eval_list(self, nodes, st):
        outs = [(st, [])]
        for n in nodes:
            nxt = []
            for s, acc in outs:
                if isinstance(acc, Exc):
                    nxt.append((s, acc))
                    continue
                for s2, v in self.eval(n, s):
                    if isinstance(v, Exc):
                        nxt.append((s2, v))
                    else:
                        nxt.append((s2, acc + [v]))
            outs = nxt
        return outs

    # ------------------------------------------------------------ name lookup

    def lookup(self, name, st, node=None):
        if name in st.env:
            v = st.env[name]
            if v is None:
                raise EngineError(f"read of a variable havocked without shape: {name} at {self.where(node)}")
            return v
        fr = st.frame
        if name in fr.closure:
            return fr.closure[name]
        mi = self.modules.load(fr.modname)
        if name in mi.globals:
            return self.global_value(mi.globals[name], name)
        if name == "__name__":
            return StrV(fr.modname)
        if hasattr(builtins, name):
            return FunV("lib", name="builtins." + name)
        raise EngineError(f"unbound name {name} at {self.where(node)} in {fr.funcqual}")

    def global_value(self, b, name):
        kind = b[0]
        if kind == "def":
            return FunV("def", node=b[1], modname=b[2], name=b[2] + "." + b[1].name, clsqual=None)
        if kind == "class":
            return FunV("class", node=b[1], modname=b[2], name=b[2] + "." + b[1].name)
        if kind == "module":
            return ModV(b[1])
        if kind == "from":
            r = self.modules.resolve_from(b[1], b[2])
            if r[0] == "ext":
                return ModV(r[1])
            if r[0] == "missing":
                return Exc("ImportError", f"cannot import {b[2]} from {b[1]}")
            return self.global_value(r, name)
        if kind == "assign":
            node = b[1]
            st = State()
            st.frame = Frame(b[2], b[2] + ".<module>")
            outs = self.eval(node, st)
            if len(outs) == 1 and not isinstance(outs[0][1], Exc):
                return outs[0][1]
            raise EngineError(f"module-level assignment of {name} not constant")
        if kind == "ext":
            return ModV(b[1])
        raise EngineError(f"global {name}: {kind}")

    # ------------------------------------------------------------ statements

    def exec_block(self, stmts, st):
        outs = [(st, None)]
        for s in stmts:
            nxt = []
            for cur, ctl in outs:
                if ctl is not None:
                    nxt.append((cur, ctl))
                else:
                    nxt.extend(self.exec_stmt(s, cur))
            outs = nxt
            if len(outs) > MAX_PATHS:
                raise EngineError("path explosion")
        return outs

    def lift(self, outcomes, f=None):
        """expression outcomes -> statement outcomes"""
        res = []
        for st, v in outcomes:
            if isinstance(v, Exc):
                res.append((st, ("exc", v)))
            elif f is None:
                res.append((st, None))
            else:
                res.extend(f(st, v))
        return res

    def exec_stmt(self, node, st):
        c = self.specs.get(st.frame.funcqual) if self.specs is not None else None
        if c is not None and not self.bounded and c.opts.get("ghosts"):
            src0 = ast.unparse(node) if not isinstance(node, (ast.For, ast.While, ast.If, ast.With, ast.Try)) else ast.unparse(node).split("\n")[0]
            for before, gname, gexpr in c.opts["ghosts"]:
                if before in src0 and gname not in st.env:
                    gnode = ast.parse(gexpr, mode="eval").body
                    ast.copy_location(gnode, node)
                    ast.fix_missing_locations(gnode)
                    self.dry += 1
                    try:
                        outs = [(s_, v_) for s_, v_ in self.eval(gnode, st) if not isinstance(v_, Exc)]
                    finally:
                        self.dry -= 1
                    if len(outs) != 1:
                        raise EngineError(f"ghost assignment {gname} = {gexpr} does not evaluate to one value")
                    st = outs[0][0]
                    st.env[gname] = outs[0][1]
        if c is not None and not self.bounded and any(k[0] == "before" for k in c.hints):
            src = None
            for (kind, sub), names in c.hints.items():
                if kind != "before":
                    continue
                if src is None:
                    src = ast.unparse(node) if not isinstance(node, (ast.For, ast.While, ast.If, ast.With, ast.Try)) else \
                        ast.unparse(node).split("\n")[0]
                if sub in src:
                    for hn in names:
                        try:
                            hv = self.specs.eval_invariant(self, c, hn, st, node, None)
                        except Unbound:
                            if hn in c.opts.get("optional_hints", ()):
                                continue
                            raise
                        self.oblige(st, hv, "hint", hn, self.where(node))
        m = getattr(self, "s_" + type(node).__name__, None)
        if m is None:
            raise EngineError(f"unsupported statement {type(node).__name__} at {self.where(node)} in {st.frame.funcqual}")
        outs = m(node, st)
        pp = getattr(self, "pp_inv", None)
        if pp is not None and not self.dry and outs and outs[0][0].frame.funcqual == self.verifying:
            # crash / interruption points: the invariant must hold after every statement, on every edge
            db, c, clause, pre_env = pp
            for s2, ctl in outs:
                g = db.eval_clause(self, s2, db.clause(c, clause), pre_env)
                self.oblige(s2, g, "pp-inv", clause, self.where(node) + (":" + ctl[0] if ctl else ""), assume=False)
        return outs

    def s_Expr(self, node, st):
        if isinstance(node.value, ast.Constant):
            return [(st, None)]
        return self.lift(self.eval(node.value, st))

    def s_Pass(self, node, st):
        return [(st, None)]

    def s_Import(self, node, st):
        for a in node.names:
            nm = a.asname or a.name.split(".")[0]
            st.env[nm] = ModV(a.name if a.asname else a.name.split(".")[0])
        return [(st, None)]

    def s_ImportFrom(self, node, st):
        for a in node.names:
            r = self.modules.resolve_from(node.module, a.name)
            v = ModV(r[1]) if r[0] == "ext" else self.global_value(r, a.name)
            if isinstance(v, Exc):
                return [(st, ("exc", v))]
            st.env[a.asname or a.name] = v
        return [(st, None)]

    def s_Return(self, node, st):
        if node.value is None:
            return [(st, ("ret", NONE))]
        return self.lift(self.eval(node.value, st), lambda s, v: [(s, ("ret", v))])

    def s_Break(self, node, st):
        return [(st, ("brk",))]

    def s_Continue(self, node, st):
        return [(st, ("cnt",))]

    def s_Raise(self, node, st):
        if node.exc is None:
            cur = st.env.get("__active_exc")
            if cur is None:
                raise EngineError("bare raise outside except")
            return [(st, ("exc", cur))]
        exc = node.exc
        if isinstance(exc, ast.Call):
            def f(s, args):
                cls = self.exc_class_name(exc.func, s)
                return [(s, ("exc", Exc(cls, "", self.where(node))))]
            return self.lift(self.eval_list(exc.args, st), f)
        cls = self.exc_class_name(exc, st)
        return [(st, ("exc", Exc(cls, "", self.where(node))))]

    def exc_class_name(self, node, st):
        if isinstance(node, ast.Name):
            return node.id
        if isinstance(node, ast.Attribute):
            return node.attr
        raise EngineError("exception class expression")

    def s_Assign(self, node, st):
        def f(s, v):
            outs = [(s, None)]
            for tgt in node.targets:
                nxt = []
                for s2, ctl in outs:
                    if ctl is not None:
                        nxt.append((s2, ctl))
                    else:
                        nxt.extend(self.assign(tgt, v, s2))
                outs = nxt
            return outs
        return self.lift(self.eval(node.value, st), f)

    def s_AnnAssign(self, node, st):
        if node.value is None:
            return [(st, None)]
        return self.lift(self.eval(node.value, st), lambda s, v: self.assign(node.target, v, s))

    def s_AugAssign(self, node, st):
        tgt = node.target
        if isinstance(tgt, ast.Name):
            load = ast.Name(id=tgt.id, ctx=ast.Load())
        elif isinstance(tgt, ast.Subscript):
            load = ast.Subscript(value=tgt.value, slice=tgt.slice, ctx=ast.Load())
        elif isinstance(tgt, ast.Attribute):
            load = ast.Attribute(value=tgt.value, attr=tgt.attr, ctx=ast.Load())
        else:
            raise EngineError("augassign target")
        ast.copy_location(load, node)
        ast.fix_missing_locations(load)

        def f(s, vals):
            cur, rhs = vals
            # in-place semantics for ndarray targets: x[a:b] += d writes through the view
            res = []
            for s2, v in lib.binop(self, s, type(node.op).__name__, cur, rhs, node):
                if isinstance(v, Exc):
                    res.append((s2, ("exc", v)))
                    continue
                if isinstance(tgt, ast.Name) and isinstance(cur, Ref) and isinstance(s2.heap.get(cur.id), (SeqVal, ViewVal)) \
                        and s2.heap[cur.id].kind == "ndarray":
                    # ndarray += ... mutates in place
                    res.extend(self.lift(lib.store_all(self, s2, cur, v, node)))
                else:
                    res.extend(self.assign(tgt, v, s2))
            return res
        return self.lift(self.eval_list([load, node.value], st), f)

    def assign(self, tgt, v, st):
        if isinstance(tgt, ast.Name):
            lib.letbind(self, st, v, tgt.id)
            v = lib.letbind_scalar(self, st, v, tgt.id)
            st.env[tgt.id] = v
            return [(st, None)]
        if isinstance(tgt, (ast.Tuple, ast.List)):
            items = lib.unpack(self, st, v, len(tgt.elts))
            if isinstance(items, Exc):
                return [(st, ("exc", items))]
            outs = [(st, None)]
            for t, it in zip(tgt.elts, items):
                nxt = []
                for s2, ctl in outs:
                    if ctl is not None:
                        nxt.append((s2, ctl))
                    else:
                        nxt.extend(self.assign(t, it, s2))
                outs = nxt
            return outs
        if isinstance(tgt, ast.Attribute):
            def f(s, obj):
                if isinstance(obj, Ref) and isinstance(s.heap[obj.id], ObjVal):
                    o = s.heap[obj.id]
                    flds = dict(o.fields)
                    flds[tgt.attr] = v
                    s.heap[obj.id] = ObjVal(o.cls, flds)
                    return [(s, None)]
                raise EngineError(f"attribute store on {obj}")
            return self.lift(self.eval(tgt.value, st), f)
        if isinstance(tgt, ast.Subscript):
            def f(s, vals):
                obj, idx = vals
                return self.lift(lib.setitem(self, s, obj, idx, v, tgt))
            return self.lift(self.bind(self.eval(tgt.value, st),
                                       lambda s, o: self.bind(self.eval_index(tgt.slice, s), lambda s2, i: [(s2, [o, i])])), f)
        raise EngineError(f"assignment target {type(tgt).__name__}")

    def s_If(self, node, st):
        res = []
        c0 = self.specs.get(st.frame.funcqual) if self.specs is not None else None
        merge = c0 is not None and c0.opts.get("merge_branches") and not self.bounded
        npc0 = len(st.pc)
        env0, heap0 = dict(st.env), dict(st.heap)
        allsub = []
        for s, c in self.eval(node.test, st):
            if isinstance(c, Exc):
                res.append((s, ("exc", c)))
                continue
            for s2, b in self.branch(s, lib.truthy(self, s, c)):
                self.narrow(node.test, s2, b)
                allsub.extend(self.exec_block(node.body if b else node.orelse, s2))
        if merge:
            # (a test with `and` / `or` reaches the branches along several paths: all normal outcomes are joined)
            allsub = self.merge_outcomes(allsub, npc0, env0, heap0)
        res.extend(allsub)
        return res

    def merge_outcomes(self, outs, npc, env_before, heap_before):
        """Join of the two normal outcomes of an if/else whose branches only (re)bind numeric locals (and allocate fresh
        objects): path condition  common /\ (b => extra1) /\ (not b => extra2)  for a fresh Boolean b, locals ite(b, v1, v2).
        Every concrete execution follows one of the two paths, so it satisfies the joined state with b chosen accordingly; the
        join describes nothing else.  Anything that does not fit (writes to existing objects, non-numeric differences, ghost
        differences, exceptional outcomes) is left as separate paths."""
        normal = [(s, ctl) for s, ctl in outs if ctl is None]
        if len(normal) > 2:
            # a test with `and` / `or` reaches a branch along several paths: join them two at a time
            rest = [(s, ctl) for s, ctl in outs if ctl is not None]
            cur = normal
            for _ in range(len(normal)):
                if len(cur) < 2:
                    break
                merged = self.merge_outcomes(cur[:2], npc, env_before, heap_before)
                if len(merged) != 1:
                    break
                cur = merged + cur[2:]
            return rest + cur
        if len(normal) != 2:
            return outs
        (s1, _), (s2, _) = normal
        if len(s1.pc) < npc or len(s2.pc) < npc or not all(a is b for a, b in zip(s1.pc[:npc], s2.pc[:npc])):
            return outs
        # existing heap objects must be untouched in both; fresh ones are kept side by side (ids are unique)
        for k, v in heap_before.items():
            if s1.heap.get(k) is not v or s2.heap.get(k) is not v:
                return outs
        for k in set(s1.heap) & set(s2.heap):
            if s1.heap[k] is not s2.heap[k]:
                return outs
        if repr(s1.ghost) != repr(s2.ghost):
            return outs
        if {k for k in s1.env if not k.startswith("__last")} != {k for k in s2.env if not k.startswith("__last")}:
            return outs
        for k in set(s1.env) ^ set(s2.env):
            s1.env.setdefault(k, None)
            s2.env.setdefault(k, None)
        b = z3.Bool(fresh_name("join"))
        env = {}
        for k in s1.env:
            v1, v2 = s1.env[k], s2.env[k]
            if v1 is v2:
                env[k] = v1
            elif k.startswith("__last"):
                env[k] = None            # `last_result` is not available after a join of branches that made different calls
            elif isinstance(v1, Num) and isinstance(v2, Num) and v1.kind == v2.kind:
                env[k] = v1 if v1.t.eq(v2.t) else Num(z3.If(b, v1.t, v2.t), v1.kind)
            elif isinstance(v1, Num) and isinstance(v2, Num) and {v1.kind, v2.kind} == {"int", "real"}:
                t1 = z3.ToReal(v1.t) if v1.kind == "int" else v1.t
                t2 = z3.ToReal(v2.t) if v2.kind == "int" else v2.t
                env[k] = Num(z3.If(b, t1, t2), "real")
            elif type(v1) is type(v2) and repr(v1) == repr(v2) and not isinstance(v1, Num):
                env[k] = v1
            else:
                return outs
        j = s1
        e1, e2 = s1.pc[npc:], s2.pc[npc:]
        j.pc = list(s1.pc[:npc])
        for f in e1:
            j.pc.append(z3.Implies(b, f))
        for f in e2:
            j.pc.append(z3.Implies(z3.Not(b), f))
        j.env = env
        j.heap = dict(s1.heap)
        j.heap.update(s2.heap)
        return [(s_, ctl) for s_, ctl in outs if ctl is not None] + [(j, None)]

    def narrow(self, test, st, truth):
        """refine `x is None` / `x is not None` tests on optional locals"""
        if isinstance(test, ast.UnaryOp) and isinstance(test.op, ast.Not):
            return self.narrow(test.operand, st, not truth)
        if isinstance(test, ast.BoolOp):
            if (isinstance(test.op, ast.And) and truth) or (isinstance(test.op, ast.Or) and not truth):
                for v in test.values:
                    self.narrow(v, st, truth)
            return
        if isinstance(test, ast.Compare) and len(test.ops) == 1 and isinstance(test.left, ast.Name) \
                and isinstance(test.comparators[0], ast.Constant) and test.comparators[0].value is None \
                and isinstance(test.ops[0], (ast.Is, ast.IsNot)):
            name = test.left.id
            v = st.env.get(name)
            if isinstance(v, OptV):
                is_none = truth if isinstance(test.ops[0], ast.Is) else not truth
                st.env[name] = NONE if is_none else v.val

    def branch(self, st, cond):
        """fork on a z3 Bool; yields (state, python bool)"""
        c = z3.simplify(cond)
        if z3.is_true(c):
            return [(st, True)]
        if z3.is_false(c):
            return [(st, False)]
        out = []
        if self.feasible(st, c):
            t = self.fork(st)
            t.assume(c)
            out.append((t, True))
        nc = z3.simplify(z3.Not(c))
        if self.feasible(st, nc):
            e = st
            e.assume(nc)
            out.append((e, False))
        return out

    def feasible(self, st, c):
        if not self.prune:
            return True
        s = z3.Solver()
        s.set("timeout", 300)
        s.add(*st.pc)
        s.add(c)
        return s.check() != z3.unsat

    prune = False

    def s_Assert(self, node, st):
        res = []
        for s, c in self.eval(node.test, st):
            if isinstance(c, Exc):
                res.append((s, ("exc", c)))
                continue
            excs, ok = self.may_raise(s, z3.Not(lib.truthy(self, s, c)), "AssertionError", where=self.where(node))
            res.extend((s2, ("exc", e)) for s2, e in excs)
            if ok is not None:
                res.append((ok, None))
        return res

    def s_FunctionDef(self, node, st):
        st.env[node.name] = FunV("def", node=node, modname=st.frame.modname, name=st.frame.funcqual + ".<locals>." + node.name,
                                 clsqual=None, closure=dict(st.env))
        return [(st, None)]

    def s_With(self, node, st):
        if len(node.items) != 1:
            raise EngineError("with: multiple items")
        item = node.items[0]
        res = []
        for s, cm in self.eval(item.context_expr, st):
            if isinstance(cm, Exc):
                res.append((s, ("exc", cm)))
                continue
            for s2, v in lib.cm_enter(self, s, cm, node):
                if isinstance(v, Exc):
                    res.append((s2, ("exc", v)))
                    continue
                if item.optional_vars is not None:
                    outs = self.assign(item.optional_vars, v, s2)
                else:
                    outs = [(s2, None)]
                for s3, ctl in outs:
                    if ctl is not None:
                        res.append((s3, ctl))
                        continue
                    for s4, ctl2 in self.exec_block(node.body, s3):
                        for s5, r in lib.cm_exit(self, s4, cm, ctl2, node):
                            res.append((s5, r))
        return res

    def s_Try(self, node, st):
        res = []
        for s, ctl in self.exec_block(node.body, st):
            if ctl is None:
                outs = self.exec_block(node.orelse, s) if node.orelse else [(s, None)]
            elif ctl[0] == "exc":
                outs = None
                for h in node.handlers:
                    if self.handler_matches(h, ctl[1], s):
                        if h.name:
                            s.env[h.name] = AnyV("exc")
                        saved = s.env.get("__active_exc")
                        s.env["__active_exc"] = ctl[1]
                        outs = []
                        for s2, c2 in self.exec_block(h.body, s):
                            s2.env["__active_exc"] = saved
                            outs.append((s2, c2))
                        break
                if outs is None:
                    outs = [(s, ctl)]
            else:
                outs = [(s, ctl)]
            if node.finalbody:
                fin = []
                for s2, c2 in outs:
                    for s3, c3 in self.exec_block(node.finalbody, s2):
                        fin.append((s3, c3 if c3 is not None else c2))
                outs = fin
            res.extend(outs)
        return res

    def handler_matches(self, h, exc, st):
        if h.type is None:
            return True
        names = []
        t = h.type
        elts = t.elts if isinstance(t, ast.Tuple) else [t]
        for e in elts:
            names.append(self.exc_class_name(e, st))
        return any(lib.exc_subclass(exc.cls, n) for n in names)

    # ------------------------------------------------------------------ loops

    def loop_ordinal(self, node, st):
        return self.loop_ord.get(id(node))

    def index_loops(self, fdef):
        n = 0
        for sub in ast.walk(fdef):
            pass
        # pre-order numbering of While/For nodes in source order
        loops = [x for x in ast.walk(fdef) if isinstance(x, (ast.While, ast.For))]
        loops.sort(key=lambda x: (x.lineno, x.col_offset))
        for i, l in enumerate(loops, 1):
            self.loop_ord[id(l)] = i
        return len(loops)

    def s_While(self, node, st):
        spec = self.loop_spec(node, st)
        if spec is None:
            return self.unroll_while(node, st)
        return self.cut_loop(node, st, spec, kind="while")

    def loop_spec(self, node, st):
        if self.bounded:
            return None
        ordn = self.loop_ord.get(id(node))
        c = self.specs.get(st.frame.funcqual)
        if c is None or ordn is None:
            return None
        invs = c.invariants.get(ordn)
        if not invs:
            return None
        return (c, ordn, invs, c.decreases.get(ordn))

    def unroll_while(self, node, st):
        res = []
        work = [(st, 0)]
        while work:
            s, depth = work.pop()
            if depth > MAX_UNROLL:
                raise EngineError(f"loop at {self.where(node)} in {st.frame.funcqual} has no invariant and does not unroll "
                                  f"within {MAX_UNROLL} iterations")
            for s1, c in self.eval(node.test, s):
                if isinstance(c, Exc):
                    res.append((s1, ("exc", c)))
                    continue
                cond = z3.simplify(lib.truthy(self, s1, c))
                if not (z3.is_true(cond) or z3.is_false(cond)) and not self.bounded and not self.dry_unroll_ok:
                    raise EngineError(f"loop at {self.where(node)} in {st.frame.funcqual}: symbolic guard and no invariant")
                saved = self.prune
                self.prune = True
                br = self.branch(s1, cond)
                self.prune = saved
                for s2, b in br:
                    if not b:
                        res.extend(self.exec_block(node.orelse, s2) if node.orelse else [(s2, None)])
                        continue
                    for s3, ctl in self.exec_block(node.body, s2):
                        if ctl is None or ctl[0] == "cnt":
                            work.append((s3, depth + 1))
                        elif ctl[0] == "brk":
                            res.append((s3, None))
                        else:
                            res.append((s3, ctl))
        return res

    dry_unroll_ok = False

    def s_For(self, node, st):
        res = []
        for s, it in self.eval(node.iter, st):
            if isinstance(it, Exc):
                res.append((s, ("exc", it)))
                continue
            res.extend(self.for_over(node, s, it))
        return res

    def for_over(self, node, st, it):
        """`for tgt in it`: desugared to a counter loop  c = 0; while c < N: tgt = item(c); body; c += 1"""
        n_items, item = lib.iter_protocol(self, st, it, node)
        cname = f"__c_L{node.lineno}_{node.col_offset}"
        st.env[cname] = Num(z3.IntVal(0), "int")
        spec = self.loop_spec(node, st)
        info = dict(cname=cname, n_items=n_items, item=item)
        if spec is None:
            n = conc_int(n_items)
            if n is None:
                if not (self.bounded or self.dry_unroll_ok):
                    raise EngineError(f"for-loop at {self.where(node)} in {st.frame.funcqual}: symbolic trip count and no invariant")
                return self.unroll_for_symbolic(node, st, info)
            if n > MAX_UNROLL:
                raise EngineError("for-loop too long to unroll")
            outs = [(st, None)]
            res = []
            for k in range(n):
                nxt = []
                for s, ctl in outs:
                    for s1, v in item(s, z3.IntVal(k)):
                        if isinstance(v, Exc):
                            res.append((s1, ("exc", v)))
                            continue
                        for s2, c2 in self.assign(node.target, v, s1):
                            if c2 is not None:
                                res.append((s2, c2))
                                continue
                            for s3, c3 in self.exec_block(node.body, s2):
                                if c3 is None or c3[0] == "cnt":
                                    nxt.append((s3, None))
                                elif c3[0] == "brk":
                                    res.append((s3, None))
                                else:
                                    res.append((s3, c3))
                outs = nxt
            for s, ctl in outs:
                res.extend(self.exec_block(node.orelse, s) if node.orelse else [(s, None)])
            return res
        return self.cut_loop(node, st, spec, kind="for", info=info)

    def unroll_for_symbolic(self, node, st, info):
        res = []
        work = [(st, 0)]
        while work:
            s, k = work.pop()
            if k > MAX_UNROLL:
                raise EngineError("for-loop does not unroll")
            saved = self.prune
            self.prune = True
            br = self.branch(s, z3.IntVal(k) < info["n_items"])
            self.prune = saved
            for s2, b in br:
                if not b:
                    res.extend(self.exec_block(node.orelse, s2) if node.orelse else [(s2, None)])
                    continue
                for s1, v in info["item"](s2, z3.IntVal(k)):
                    if isinstance(v, Exc):
                        res.append((s1, ("exc", v)))
                        continue
                    for s3, c2 in self.assign(node.target, v, s1):
                        if c2 is not None:
                            res.append((s3, c2))
                            continue
                        for s4, c3 in self.exec_block(node.body, s3):
                            if c3 is None or c3[0] == "cnt":
                                work.append((s4, k + 1))
                            elif c3[0] == "brk":
                                res.append((s4, None))
                            else:
                                res.append((s4, c3))
        return res

    # ---- cutting a loop with an invariant

    def loop_body_once(self, node, st, kind, info):
        """one iteration from a state at the loop head: returns (exit_outs, back_outs, other_outs)"""
        exits, backs, others = [], [], []
        if kind == "while":
            for s1, c in self.eval(node.test, st):
                if isinstance(c, Exc):
                    others.append((s1, ("exc", c)))
                    continue
                for s2, b in self.branch(s1, lib.truthy(self, s1, c)):
                    if not b:
                        exits.append((s2, "guard"))
                        continue
                    for s3, ctl in self.exec_block(node.body, s2):
                        if ctl is None or ctl[0] == "cnt":
                            backs.append(s3)
                        elif ctl[0] == "brk":
                            exits.append((s3, "brk"))
                        else:
                            others.append((s3, ctl))
        else:
            cname = info["cname"]
            c = st.env[cname].t
            for s2, b in self.branch(st, c < info["n_items"]):
                if not b:
                    exits.append((s2, "guard"))
                    continue
                for s1, v in info["item"](s2, c):
                    if isinstance(v, Exc):
                        others.append((s1, ("exc", v)))
                        continue
                    for s3, c2 in self.assign(node.target, v, s1):
                        if c2 is not None:
                            others.append((s3, c2))
                            continue
                        for s4, c3 in self.exec_block(node.body, s3):
                            if c3 is None or c3[0] == "cnt":
                                s4.env[cname] = Num(s4.env[cname].t + 1, "int")
                                backs.append(s4)
                            elif c3[0] == "brk":
                                exits.append((s4, "brk"))
                            else:
                                others.append((s4, c3))
        return exits, backs, others

    def cut_loop(self, node, st, spec, kind, info=None):
        contract, ordn, invs, dec = spec
        wh = self.where(node)
        fq = st.frame.funcqual
        # 1. invariant on entry
        for inv in invs:
            g = self.specs.eval_invariant(self, contract, inv, st, node, info)
            self.oblige(st, g, "inv-entry", inv, wh, assume=False)
        # 2. havoc set by fixpoint (dry runs)
        hv_vars, hv_heap = {}, {}
        self._ghost_changed = set()
        self.dry += 1
        try:
            for _round in range(6):
                h = self.havoc(self.fork(st), hv_vars, hv_heap)
                saved_pc = len(h.pc)
                self.havoc_ghost(h, st, getattr(self, "_ghost_changed", set()))
                # snapshot of the head state: states are updated in place along a path, so `h` itself may be one of the
                # back-edge states afterwards
                head = State()
                head.env, head.heap = dict(h.env), dict(h.heap)
                head.ghost = {"fs": dict(h.ghost.get("fs", {})), "net_calls": h.ghost.get("net_calls")}
                exits, backs, others = self.loop_body_once(node, h, kind, info)
                h = head
                grew = False
                for b in backs + [x[0] for x in exits] + [x[0] for x in others]:
                    gc = getattr(self, "_ghost_changed", set())
                    n0 = len(gc)
                    if "net_calls" in b.ghost and b.ghost.get("net_calls") is not h.ghost.get("net_calls"):
                        gc.add("net_calls")
                    for k_, f_ in b.ghost.get("fs", {}).items():
                        if h.ghost.get("fs", {}).get(k_) is not f_:
                            gc.add(("fs", k_))
                    self._ghost_changed = gc
                    if len(gc) != n0:
                        grew = True
                for b in backs:
                    for name, v in b.env.items():
                        if name.startswith("__active") or name.startswith("__head") or name.startswith("__last"):
                            continue
                        old = h.env.get(name, "absent") if name in h.env else "absent"
                        if old == "absent":
                            continue       # defined only inside the body: not live at the head
                        if v is not old:
                            sh = lib.shape_of(self, b, v)
                            if name in hv_vars:
                                j = lib.join_shape(hv_vars[name], sh)
                            else:
                                j = lib.join_shape(lib.shape_of(self, st, st.env[name]), sh)
                            if hv_vars.get(name) != j:
                                hv_vars[name] = j
                                grew = True
                    for hid, obj in b.heap.items():
                        if hid in st.heap and obj is not h.heap.get(hid):
                            sh = lib.heap_shape(self, b, obj)
                            j = lib.join_shape(hv_heap[hid], sh) if hid in hv_heap else \
                                lib.join_shape(lib.heap_shape(self, st, st.heap[hid]), sh)
                            if hv_heap.get(hid) != j:
                                hv_heap[hid] = j
                                grew = True
                if not grew:
                    break
            else:
                raise EngineError(f"havoc set of loop {wh} in {fq} does not stabilise")
        finally:
            self.dry -= 1
        # ghost file system / network counter changed by the body: havoc them as well
        ghost_changed = getattr(self, "_ghost_changed", set())
        # 3. arbitrary iteration
        h = self.havoc(st, hv_vars, hv_heap)
        self.havoc_ghost(h, st, ghost_changed)
        for inv in invs:
            h.assume(self.specs.eval_invariant(self, contract, inv, h, node, info))
        if kind == "for":
            c = h.env[info["cname"]].t
            h.assume(z3.And(c >= 0, c <= info["n_items"]))
        dec0 = self.specs.eval_invariant(self, contract, dec, h, node, info, boolean=False) if dec else None
        h.env["__head_env"] = (dict(h.env), dict(h.heap))          # ghost snapshot: `name__head` in hints / invariants
        for hn in contract.hints.get((ordn, "head"), []):
            self.oblige(h, self.specs.eval_invariant(self, contract, hn, h, node, info), "hint", hn, wh)
        exits, backs, others = self.loop_body_once(node, h, kind, info)
        for b in backs:
            self.canary(b, f"canary-loop{ordn}", wh)
            for hn in contract.hints.get((ordn, "end"), []):
                self.oblige(b, self.specs.eval_invariant(self, contract, hn, b, node, info), "hint", hn, wh)
            for inv in invs:
                g = self.specs.eval_invariant(self, contract, inv, b, node, info)
                self.oblige(b, g, "inv-preserve", inv, wh)
            if dec:
                d1 = self.specs.eval_invariant(self, contract, dec, b, node, info, boolean=False)
                self.oblige(b, z3.And(d1 < dec0, dec0 >= 0) if True else None, "decreases", dec, wh)
        res = list(others)
        for s, why in exits:
            for hn in contract.hints.get((ordn, "exit"), []):
                self.oblige(s, self.specs.eval_invariant(self, contract, hn, s, node, info), "hint", hn, wh)
            if why == "guard" and node.orelse:
                res.extend(self.exec_block(node.orelse, s))
            else:
                res.append((s, None))
        return res

    def havoc_ghost(self, h, st, changed):
        from . import oslib
        for item in changed:
            if item == "net_calls":
                n = z3.Int(fresh_name("net_calls"))
                h.assume(n >= 0)
                h.ghost["net_calls"] = n
            elif isinstance(item, tuple) and item[0] == "fs":
                kind = z3.Int(fresh_name("fkind"))
                h.assume(z3.And(kind >= 0, kind <= 2))
                h.ghost.setdefault("fs", {})
                h.ghost["fs"] = dict(h.ghost["fs"])
                h.ghost["fs"][item[1]] = oslib.FState(kind, z3.String(fresh_name("fcontent")))

    def havoc(self, st, hv_vars, hv_heap):
        for name, sh in hv_vars.items():
            st.env[name] = lib.fresh_of_shape(self, st, sh, name)
        for hid, sh in hv_heap.items():
            st.heap[hid] = lib.fresh_heap_of_shape(self, st, sh, st.heap[hid], hid)
        return st

    # ------------------------------------------------------------ expressions

    def eval(self, node, st):
        m = getattr(self, "e_" + type(node).__name__, None)
        if m is None:
            raise EngineError(f"unsupported expression {type(node).__name__} at {self.where(node)} in {st.frame.funcqual}")
        return m(node, st)

    def e_Constant(self, node, st):
        return [(st, lib.const(node.value))]

    def e_Name(self, node, st):
        v = self.lookup(node.id, st, node)
        if isinstance(v, Exc):
            return [(st, v)]
        return [(st, v)]

    def e_Tuple(self, node, st):
        if any(isinstance(e, ast.Starred) for e in node.elts):
            raise EngineError("starred in tuple")
        return self.bind(self.eval_list(node.elts, st), lambda s, vs: [(s, TupV(vs))])

    def e_List(self, node, st):
        def f(s, vs):
            return [(s, lib.new_list(self, s, vs))]
        return self.bind(self.eval_list(node.elts, st), f)

    def e_Dict(self, node, st):
        keys = []
        for k in node.keys:
            if not (isinstance(k, ast.Constant) and isinstance(k.value, str)):
                raise EngineError("dict with non-literal keys")
            keys.append(k.value)
        return self.bind(self.eval_list(node.values, st), lambda s, vs: [(s, DictV(dict(zip(keys, vs))))])

    def e_JoinedStr(self, node, st):
        # f-string: evaluate the pieces (exceptions are kept), fold when concrete
        parts = [v.value if isinstance(v, ast.FormattedValue) else v for v in node.values]

        def f(s, vs):
            if all(isinstance(v, StrV) for v in vs):
                if all(v.concrete for v in vs):
                    return [(s, StrV("".join(v.s for v in vs)))]
                return [(s, StrV(z3.Concat(*[v.term() for v in vs])) if len(vs) > 1 else vs[0])]
            return [(s, AnyV("str"))]
        return self.bind(self.eval_list(parts, st), f)

    def e_Lambda(self, node, st):
        return [(st, FunV("lambda", node=node, modname=st.frame.modname, closure=dict(st.frame.closure, **st.env),
                          name=f"<lambda@{self.where(node)}>", funcqual=st.frame.funcqual))]

    def e_IfExp(self, node, st):
        res = []
        for s, c in self.eval(node.test, st):
            if isinstance(c, Exc):
                res.append((s, c))
                continue
            for s2, b in self.branch(s, lib.truthy(self, s, c)):
                self.narrow(node.test, s2, b)
                res.extend(self.eval(node.body if b else node.orelse, s2))
        return res

    def e_BoolOp(self, node, st):
        is_and = isinstance(node.op, ast.And)

        def go(i, s):
            if i == len(node.values) - 1:
                return self.eval(node.values[i], s)
            res = []
            for s1, v in self.eval(node.values[i], s):
                if isinstance(v, Exc):
                    res.append((s1, v))
                    continue
                t = z3.simplify(lib.truthy(self, s1, v))
                if z3.is_true(t):
                    res.extend(go(i + 1, s1) if is_and else [(s1, v)])
                    continue
                if z3.is_false(t):
                    res.extend([(s1, v)] if is_and else go(i + 1, s1))
                    continue
                # try a merge without forking: evaluate the rest under the assumption
                trial = self.fork(s1)
                trial.assume(t if is_and else z3.Not(t))
                n_env, n_heap = dict(trial.env), dict(trial.heap)
                rest = go(i + 1, trial)
                normal = [(a, b) for a, b in rest if not isinstance(b, Exc)]
                excs = [(a, b) for a, b in rest if isinstance(b, Exc)]
                if len(normal) == 1 and normal[0][0].heap == n_heap and self.same_env(normal[0][0].env, n_env):
                    s2, v2 = normal[0]
                    extra = s2.pc[len(s1.pc) + 1:]
                    t2 = lib.truthy(self, s2, v2)
                    res.extend(excs)
                    guard = t if is_and else z3.Not(t)
                    for e in extra:
                        s1.assume(z3.Implies(guard, e))
                    merged = z3.And(t, t2) if is_and else z3.Or(t, t2)
                    res.append((s1, Num(merged, "bool")))
                else:
                    short = self.fork(s1)
                    short.assume(z3.Not(t) if is_and else t)
                    res.append((short, v))
                    res.extend(rest)
            return res
        return go(0, st)

    def same_env(self, a, b):
        if a.keys() != b.keys():
            return False
        return all(a[k] is b[k] for k in a)

    def e_UnaryOp(self, node, st):
        def f(s, v):
            return lib.unop(self, s, type(node.op).__name__, v, node)
        return self.bind(self.eval(node.operand, st), f)

    def e_BinOp(self, node, st):
        def f(s, vs):
            return lib.binop(self, s, type(node.op).__name__, vs[0], vs[1], node)
        return self.bind(self.eval_list([node.left, node.right], st), f)

    def e_Compare(self, node, st):
        def f(s, vs):
            outs = [(s, None)]
            acc = None
            cur = [(s, z3.BoolVal(True))]
            for i, op in enumerate(node.ops):
                nxt = []
                for s1, accb in cur:
                    for s2, r in lib.compare(self, s1, type(op).__name__, vs[i], vs[i + 1], node):
                        if isinstance(r, Exc):
                            nxt.append((s2, r))
                        elif isinstance(r, Num):
                            nxt.append((s2, z3.And(accb, r.t) if not z3.is_true(accb) else r.t))
                        else:
                            if len(node.ops) > 1:
                                raise EngineError("chained comparison of arrays")
                            nxt.append((s2, r))
                cur2 = []
                res_exc = []
                for s2, r in nxt:
                    cur2.append((s2, r))
                cur = cur2
                if any(isinstance(r, Exc) for _, r in cur):
                    if len(node.ops) > 1:
                        raise EngineError("exception in chained comparison")
            out = []
            for s2, r in cur:
                if isinstance(r, (Exc, Ref)):
                    out.append((s2, r))
                else:
                    out.append((s2, Num(r, "bool")))
            return out
        return self.bind(self.eval_list([node.left] + list(node.comparators), st), f)

    def e_Attribute(self, node, st):
        return self.bind(self.eval(node.value, st), lambda s, v: lib.getattr_(self, s, v, node.attr, node))

    def eval_index(self, sl, st):
        """evaluate a subscript index into a value: Num / SliceV / TupV of those"""
        if isinstance(sl, ast.Slice):
            parts = [sl.lower, sl.upper, sl.step]

            def go(i, s, acc):
                if i == 3:
                    return [(s, lib.SliceV(*acc))]
                if parts[i] is None:
                    return go(i + 1, s, acc + [None])
                return self.bind(self.eval(parts[i], s), lambda s2, v: go(i + 1, s2, acc + [v]))
            return go(0, st, [])
        if isinstance(sl, ast.Tuple):
            def go2(i, s, acc):
                if i == len(sl.elts):
                    return [(s, TupV(acc))]
                return self.bind(self.eval_index(sl.elts[i], s), lambda s2, v: go2(i + 1, s2, acc + [v]))
            return go2(0, st, [])
        return self.eval(sl, st)

    def e_Subscript(self, node, st):
        def f(s, obj):
            return self.bind(self.eval_index(node.slice, s), lambda s2, idx: lib.getitem(self, s2, obj, idx, node))
        return self.bind(self.eval(node.value, st), f)

    def e_ListComp(self, node, st):
        return lib.listcomp(self, st, node)

    def e_GeneratorExp(self, node, st):
        return lib.listcomp(self, st, node)

    def e_Starred(self, node, st):
        raise EngineError("starred expression outside a call")

    def e_Call(self, node, st):
        def with_fun(s, fv):
            # positional args (with *expansion) and keywords (with **expansion)
            def after_args(s2, argvals):
                pos = []
                for a, v in zip(node.args, argvals):
                    if isinstance(a, ast.Starred):
                        items = lib.unpack(self, s2, v, None)
                        if isinstance(items, Exc):
                            return [(s2, items)]
                        pos.extend(items)
                    else:
                        pos.append(v)

                def after_kw(s3, kwvals):
                    kws = {}
                    opaque = False
                    for k, v in zip(node.keywords, kwvals):
                        if k.arg is None:
                            if isinstance(v, DictV):
                                kws.update(v.d)
                                opaque = opaque or v.opaque
                            else:
                                raise EngineError("** of a non-dict")
                        else:
                            kws[k.arg] = v
                    return self.call(s3, fv, pos, kws, node, opaque_kwargs=opaque)
                return self.bind(self.eval_list([k.value for k in node.keywords], s2), after_kw)
            argnodes = [a.value if isinstance(a, ast.Starred) else a for a in node.args]
            return self.bind(self.eval_list(argnodes, s), after_args)
        return self.bind(self.eval(node.func, st), with_fun)

    # ------------------------------------------------------------------ calls

    def call(self, st, fv, pos, kws, node, opaque_kwargs=False):
        if isinstance(fv, Exc):
            return [(st, fv)]
        if not isinstance(fv, FunV):
            if isinstance(fv, Ref) and isinstance(st.heap.get(fv.id), ObjVal):
                o = st.heap[fv.id]
                return lib.call_object(self, st, fv, o, pos, kws, node)
            if isinstance(fv, ModV):
                if opaque_kwargs:
                    self.assumed.add(f"A-kwargs: unknown **kwargs forwarded to {fv.name} are treated as absent (default behaviour of the library call)")
                return lib.call_lib(self, st, fv.name, pos, kws, node)
            if isinstance(fv, NoneV):
                return [(st, Exc("TypeError", "'NoneType' object is not callable", self.where(node)))]
            if isinstance(fv, AnyV) and fv.tag == "module-attribute":
                # a loader bound in the aggregation module, reached through a symbolic name: its behaviour is decided per
                # concrete name elsewhere (C18 enumerates all of them); here only "it was found" matters
                return [(st, AnyV("loader-result"))]
            raise EngineError(f"call of non-callable {fv} at {self.where(node)}")
        k = fv.kind
        if opaque_kwargs and k in ("lib", "libbound", "uninterp"):
            self.assumed.add(f"A-kwargs: unknown **kwargs forwarded to {getattr(fv, 'name', '?')} are treated as absent (default behaviour of the library call)")
        if k == "lib" and fv.name == "collections.namedtuple.__new__":
            from .libcalls import call_namedtuple
            return call_namedtuple(self, st, fv, pos, kws, node)
        if k == "lib":
            return lib.call_lib(self, st, fv.name, pos, kws, node)
        if k == "libbound":
            return lib.call_libmethod(self, st, fv.selfv, fv.name, pos, kws, node)
        if k == "uninterp":
            return lib.call_uninterp(self, st, fv, pos, kws, node)
        if k == "lambda":
            return self.call_lambda(st, fv, pos, kws, node)
        if k == "def":
            return self.call_def(st, fv, pos, kws, node, opaque_kwargs)
        if k == "bound":
            f2 = FunV("def", node=fv.node, modname=fv.modname, name=fv.name, clsqual=fv.clsqual, closure=None)
            return self.call_def(st, f2, [fv.selfv] + pos, kws, node, opaque_kwargs)
        if k == "class":
            return self.instantiate(st, fv, pos, kws, node, opaque_kwargs)
        if k == "absclass":
            return lib.instantiate_abstract(self, st, fv, pos, kws, node, opaque_kwargs)
        raise EngineError(f"call kind {k}")

    def bind_args(self, fdef, pos, kws, st, fv, node, opaque_kwargs=False):
        """Python argument binding -> dict or Exc"""
        a = fdef.args
        names = [x.arg for x in a.posonlyargs + a.args]
        env = {}
        if len(pos) > len(names) and not a.vararg:
            return Exc("TypeError", f"too many positional arguments for {fdef.name}", self.where(node))
        for n, v in zip(names, pos):
            env[n] = v
        extra_pos = pos[len(names):]
        if a.vararg:
            env[a.vararg.arg] = TupV(extra_pos)
        kwonly = [x.arg for x in a.kwonlyargs]
        extra_kw = {}
        for k, v in kws.items():
            if k in names or k in kwonly:
                if k in env:
                    return Exc("TypeError", f"multiple values for argument {k}", self.where(node))
                env[k] = v
            elif a.kwarg:
                extra_kw[k] = v
            else:
                return Exc("TypeError", f"{fdef.name}() got an unexpected keyword argument '{k}'", self.where(node))
        if a.kwarg:
            env[a.kwarg.arg] = DictV(extra_kw, opaque=opaque_kwargs)
        elif opaque_kwargs:
            self.assumed.add(f"A-kwargs: unknown **kwargs forwarded to {fdef.name} contain only keywords it accepts and does not "
                             f"override the explicitly bound ones")
        # defaults
        defaults = a.defaults
        nd = len(defaults)
        for i, n in enumerate(names):
            if n not in env:
                j = i - (len(names) - nd)
                if j < 0:
                    return Exc("TypeError", f"{fdef.name}() missing required argument '{n}'", self.where(node))
                env[n] = ("default", defaults[j])
        for n, d in zip(kwonly, a.kw_defaults):
            if n not in env:
                if d is None:
                    return Exc("TypeError", f"missing keyword-only argument {n}", self.where(node))
                env[n] = ("default", d)
        # evaluate defaults in the defining module scope
        for n, v in list(env.items()):
            if isinstance(v, tuple) and v and v[0] == "default":
                ds = State()
                ds.frame = Frame(fv.modname, fv.name, closure=getattr(fv, "closure", None) or {})
                ds.heap = st.heap
                outs = self.eval(v[1], ds)
                if len(outs) != 1 or isinstance(outs[0][1], Exc):
                    raise EngineError("default value evaluation")
                st.heap = ds.heap
                env[n] = outs[0][1]
        return env

    def call_lambda(self, st, fv, pos, kws, node):
        env = self.bind_args(ast.FunctionDef(name="<lambda>", args=fv.node.args, body=[], decorator_list=[]), pos, kws, st, fv, node)
        if isinstance(env, Exc):
            return [(st, env)]
        saved_env, saved_frame = st.env, st.frame
        st.env = dict(env)
        st.frame = Frame(fv.modname, getattr(fv, "funcqual", fv.name), closure=fv.closure)
        res = []
        for s, v in self.eval(fv.node.body, st):
            s.env = dict(saved_env)
            s.frame = saved_frame
            res.append((s, v))
        return res

    def call_def(self, st, fv, pos, kws, node, opaque_kwargs=False):
        fdef = fv.node
        qual = fv.name
        # decorators change what a call means (functools.lru_cache / cache make the result depend on the history of earlier
        # calls).  Only the ones whose meaning the executor implements are accepted; anything else leaves the verifier's reach.
        for d in getattr(fdef, "decorator_list", []):
            dn = ast.unparse(d.func if isinstance(d, ast.Call) else d)
            if dn.split(".")[-1] not in ("staticmethod", "classmethod", "property", "abstractmethod", "wraps"):
                raise EngineError(f"decorator @{dn} on {qual} is not modelled (memoising / wrapping decorators make a call depend on "
                                  f"earlier calls) at {self.where(node)}")
        c = self.specs.get(qual)
        env = self.bind_args(fdef, pos, kws, st, fv, node, opaque_kwargs)
        if isinstance(env, Exc):
            return [(st, env)]
        if c is not None and c.params is not None and qual != self.verifying and not self.bounded \
                and not c.opts.get("inline"):
            return self.specs.call_by_contract(self, st, c, fdef, env, node)
        if c is None or c.opts.get("inline") or self.bounded:
            self.inline_log.add(qual)
        return self.inline(st, fv, env)

    def inline(self, st, fv, env):
        fdef = fv.node
        saved_env, saved_frame = st.env, st.frame
        st.env = dict(env)
        st.frame = Frame(fv.modname, fv.name, clsqual=getattr(fv, "clsqual", None), closure=getattr(fv, "closure", None) or {})
        if id(fdef) not in self._indexed:
            self.index_loops(fdef)
            self._indexed.add(id(fdef))
        res = []
        for s, ctl in self.exec_block(fdef.body, st):
            s.env = dict(saved_env)
            s.frame = saved_frame
            if ctl is None:
                res.append((s, NONE))
            elif ctl[0] == "ret":
                res.append((s, ctl[1]))
            elif ctl[0] == "exc":
                res.append((s, ctl[1]))
            else:
                raise EngineError("break/continue outside loop")
        return res


    def instantiate(self, st, fv, pos, kws, node, opaque_kwargs=False):
        clsqual = fv.name
        obj = st.alloc(ObjVal(clsqual, {}))
        init = self.modules.find_method(clsqual, "__init__")
        if init is None:
            return [(st, obj)]
        fdef, modname, q = init
        f2 = FunV("def", node=fdef, modname=modname, name=q + ".__init__", clsqual=q)
        res = []
        for s, v in self.call_def(st, f2, [obj] + pos, kws, node, opaque_kwargs):
            res.append((s, v if isinstance(v, Exc) else obj))
        return res
