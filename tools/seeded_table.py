"""DESIGN.md: table of the seeded changes and the check verdicts (from seeded/*/result.json)"""
import json, os, re
rows = []
for sid in sorted(os.listdir('/verif/seeded')):
    d = f'/verif/seeded/{sid}'
    if not os.path.exists(f'{d}/meta.json'):
        continue
    meta = json.load(open(f'{d}/meta.json'))
    res = json.load(open(f'{d}/result.json')) if os.path.exists(f'{d}/result.json') else {}
    verdicts = []
    for p, c in (res.get('checks') or {}).items():
        line = (c.get('lines') or [''])[0]
        if c['exit'] == 1:
            v = 'VIOLATION' + (' (no input)' if 'no-failing-input-found' in line else ' + replayed input')
        elif c['exit'] == 0:
            v = 'not caught'
        elif c['exit'] == 2:
            v = 'undecided (exit 2)'
        else:
            v = 'checker error (exit 3)'
        verdicts.append(f'{p}: {v}')
    note = meta.get('verif_note', '')
    what = re.sub(r'\s+', ' ', meta.get('what', ''))[:150]
    rows.append(f"| {sid} | {what} | {'; '.join(verdicts) or 'not evaluated'} | {note} |")
table = "| change | what | verdict of the check(s) | note |\n|---|---|---|---|\n" + "\n".join(rows)
p = '/verif/DESIGN.md'
s = open(p).read()
a, b = s.index('<!-- SEEDED-TABLE-BEGIN -->'), s.index('<!-- SEEDED-TABLE-END -->')
s = s[:a] + '<!-- SEEDED-TABLE-BEGIN -->\n' + table + '\n' + s[b:]
open(p, 'w').write(s)
print(len(rows), 'rows')
