"""import the changes a sub-agent left in <worktree>/seeded_out/m{1,2,3} as seeded/<PID>_m<k>: each is re-verified here on a scratch
copy of /repo (outside /repo and /verif, removed afterwards): the patch applies to the clean tree, the demonstration exits 0 on
the clean tree and non-zero with the change, and the per-test outcomes of the pinned suite are identical to the clean tree's.
usage: import_seeded.py <PID> <worktree> <first k>"""
import json, os, re, shutil, subprocess, sys, tempfile

pid, wt, k0 = sys.argv[1], sys.argv[2], int(sys.argv[3])
PY = '/venv/bin/python'
TEST = [PY, '-m', 'pytest', '-q', '-p', 'no:cacheprovider', '--timeout=900', '--continue-on-collection-errors', '-rA']


def outcomes(root):
    env = dict(os.environ, PYTHONPATH=root + '/src')
    env.pop('TRAFFIC_WEAVER_VERIF', None)
    r = subprocess.run(TEST, cwd=root, env=env, capture_output=True, text=True, timeout=1800)
    lines = sorted(l for l in r.stdout.splitlines() if re.match(r'^(PASSED|FAILED|ERROR) ', l))
    lines = [re.sub(r' - .*$', '', l) for l in lines]
    summ = [l for l in r.stdout.splitlines() if re.search(r'\d+ (passed|failed)', l)]
    return lines, (summ[-1] if summ else r.stdout[-300:])


def scratch():
    root = tempfile.mkdtemp(prefix='imp_', dir='/tmp')
    subprocess.run(['git', '-C', '/repo', 'worktree', 'add', '--detach', root + '/wt', 'HEAD'], capture_output=True, check=True)
    return root, root + '/wt'


root, clean = scratch()
try:
    base_lines, base_sum = outcomes(clean)
    print('baseline:', base_sum, flush=True)
    k = k0
    for i in (1, 2, 3):
        d = f'{wt}/seeded_out/m{i}'
        if not os.path.exists(d + '/patch.diff'):
            print('missing', d)
            continue
        subprocess.run(['git', '-C', clean, 'checkout', '--', '.'], check=True)
        env = dict(os.environ, PYTHONPATH=clean + '/src')
        d0 = subprocess.run([PY, d + '/demo.py'], env=env, cwd='/tmp', capture_output=True, text=True, timeout=900)
        ap = subprocess.run(['git', '-C', clean, 'apply', d + '/patch.diff'], capture_output=True, text=True)
        if ap.returncode != 0:
            print(f'm{i}: patch does not apply: {ap.stderr[:300]}')
            continue
        files = subprocess.run(['git', '-C', clean, 'status', '--short'], capture_output=True, text=True).stdout.split()
        d1 = subprocess.run([PY, d + '/demo.py'], env=env, cwd='/tmp', capture_output=True, text=True, timeout=900)
        lines, summ = outcomes(clean)
        ok = d0.returncode == 0 and d1.returncode != 0 and lines == base_lines
        print(f'm{i}: demo clean={d0.returncode} patched={d1.returncode} tests {"identical" if lines == base_lines else "DIFFER"} ({summ}) -> {"KEEP" if ok else "REJECT"}', flush=True)
        if lines != base_lines:
            print('   diff:', sorted(set(lines) ^ set(base_lines))[:6])
        if not ok:
            continue
        sid = f'{pid}_m{k}'
        out = f'/verif/seeded/{sid}'
        os.makedirs(out, exist_ok=True)
        shutil.copy(d + '/patch.diff', out + '/patch.diff')
        shutil.copy(d + '/demo.py', out + '/demo.py')
        meta = json.load(open(d + '/meta.json'))
        meta['property'] = pid
        meta['agent_ran'] = meta.pop('ran', '')
        meta['ran'] = (f'tools/import_seeded.py on a scratch worktree of /repo HEAD: demo.py exit {d0.returncode} on the clean tree, exit {d1.returncode} with patch.diff applied; '
                       f'pinned test command (-rA): per-test outcomes identical to the clean tree ({summ.strip("= ")}); last demo line: {(d1.stdout.strip().splitlines() or [""])[-1][:200]}')
        json.dump(meta, open(out + '/meta.json', 'w'), indent=1)
        k += 1
finally:
    subprocess.run(['git', '-C', '/repo', 'worktree', 'remove', '--force', clean], capture_output=True)
    shutil.rmtree(root, ignore_errors=True)
