"""Run-time reading of the contracts on the REAL functions (replay + bounded monitoring).

Executed by the interpreter the repository runs under (/venv/bin/python), never by the verifier:

    /venv/bin/python -m pyvc.rt_runner search  <contracts.py> <qualname> <seed> <n> <out.json>
    /venv/bin/python -m pyvc.rt_runner replay  <replay.json>

`search` draws inputs from the generator of the contract (or a generic one derived from the
parameter types), keeps those satisfying `requires`, runs the real function and evaluates every
`ensures` / `raises` clause and the frame condition.  It is a *bounded* stand-in used to turn a
failed obligation into a failing input; it never counts as proof.
"""
import copy
import importlib
import importlib.util
import json
import re
import os
import random
import sys
import traceback
import warnings

import numpy as np

from . import spec as S


def load_contracts(path):
    sys.path.insert(0, os.path.dirname(os.path.dirname(os.path.abspath(path))))
    spec = importlib.util.spec_from_file_location("contracts_rt_" + os.path.basename(path)[:-3], path)
    mod = importlib.util.module_from_spec(spec)
    spec.loader.exec_module(mod)
    return mod


def resolve(qual):
    parts = qual.split(".")
    for cut in range(len(parts), 0, -1):
        try:
            mod = importlib.import_module(".".join(parts[:cut]))
        except ImportError:
            continue
        obj = mod
        for p in parts[cut:]:
            obj = getattr(obj, p)
        return obj
    raise ImportError(qual)


# ------------------------------------------------------------------ generic generators

def gen_real(rnd):
    k = rnd.random()
    if k < 0.12:
        return 0.0                      # exact zero: truthiness confusions (`x or default`, `if not x`)
    if k < 0.6:
        return float(rnd.randint(-8, 8)) / 2.0
    if k < 0.8:
        return float(rnd.randint(-3, 3))
    return rnd.uniform(-10, 10)


def gen_value(t, rnd, name=""):
    tag = t.tag
    if tag == "Real":
        return gen_real(rnd)
    if tag == "Int":
        return rnd.randint(-2, 9)
    if tag == "Bool":
        return rnd.random() < 0.5
    if tag == "Str":
        return rnd.choice(["closest", "lower", "higher", "trapezoid", "rectangle", "linear", "constant", "cubic", "spline", "bogus", ""])
    if tag == "None":
        return None
    if tag == "Const":
        return t.args[0]
    if tag == "Opt":
        return None if rnd.random() < 0.3 else gen_value(t.args[0], rnd, name)
    if tag == "Seq":
        et = t.args[0].tag
        n = rnd.choice([0, 1, 1, 2, 2, 3, 3, 4, 5, 6, 7])
        if et == "Int":
            vals = [rnd.randint(0, 8) for _ in range(n)]
            arr = np.array(vals, dtype=np.int64)
        elif et == "Bool":
            arr = np.array([rnd.random() < 0.5 for _ in range(n)], dtype=bool)
        else:
            mode = rnd.random()
            if mode < 0.55:        # strictly increasing lattice
                cur = float(rnd.randint(-4, 4)) / 2
                vals = []
                for _ in range(n):
                    vals.append(cur)
                    cur += rnd.choice([0.5, 0.5, 1.0, 1.5, 2.0])
            elif mode < 0.8:       # non-decreasing with ties
                cur = float(rnd.randint(-4, 4)) / 2
                vals = []
                for _ in range(n):
                    vals.append(cur)
                    cur += rnd.choice([0.0, 0.25, 0.5, 1.0])
            else:
                vals = [gen_real(rnd) for _ in range(n)]
            arr = np.array(vals, dtype=np.float64)
        kind = t.kw.get("kind", "ndarray")
        if kind == "list" or (kind == "arraylike" and rnd.random() < 0.3):
            return arr.tolist()
        if kind == "arraylike" and et == "Real" and rnd.random() < 0.2 and all(float(v).is_integer() for v in arr):
            return arr.astype(np.int64)
        return arr
    if tag == "Seq2":
        rows, cols = rnd.randint(1, 6), rnd.choice([2, 2, 2, 3, 1])
        m = np.array([[gen_real(rnd) for _ in range(cols)] for _ in range(rows)])
        m[:, 0] = np.cumsum(np.abs(m[:, 0]) + 0.5)
        return m
    if tag == "Tuple":
        return tuple(gen_value(x, rnd, name) for x in t.args)
    if tag == "Fn":
        from contracts import _histories
        return _histories.gen_fn(rnd)
    if tag == "Obj":
        from contracts import _histories
        if t.args[0].endswith("weaver.Weaver"):
            return _histories.gen_weaver(rnd)
        if t.args[0].startswith("traffic_weaver.rfa."):
            return _histories.gen_rfa(rnd, t.args[0].rsplit(".", 1)[1])
        if t.args[0].endswith("interval.IntervalArray"):
            from traffic_weaver.interval import IntervalArray
            n = rnd.randint(1, 5)
            ia = IntervalArray(np.array([gen_real(rnd) for _ in range(rnd.randint(1, 14))]), n)
            return ia
        raise NotImplementedError(f"no generic generator for {t}")
    if tag == "Kwargs":
        return {}
    if tag == "OneOfT":
        return gen_value(rnd.choice(t.args), rnd, name)
    if tag == "Any":
        return None
    raise NotImplementedError(f"no generic generator for {t}")


def deep_copy(v):
    try:
        return copy.deepcopy(v)
    except Exception:
        return v


def same(a, b):
    if isinstance(a, np.ndarray) or isinstance(b, np.ndarray):
        try:
            a2, b2 = np.asarray(a), np.asarray(b)
            return a2.shape == b2.shape and a2.dtype == b2.dtype and bool(np.array_equal(a2, b2, equal_nan=True))
        except Exception:
            return False
    if isinstance(a, (list, tuple)) and isinstance(b, (list, tuple)):
        return type(a) == type(b) and len(a) == len(b) and all(same(x, y) for x, y in zip(a, b))
    if hasattr(a, "__dict__") and hasattr(b, "__dict__") and type(a) == type(b):
        return a.__dict__.keys() == b.__dict__.keys() and all(same(a.__dict__[k], b.__dict__[k]) for k in a.__dict__)
    if callable(a) and callable(b):
        return True
    return a == b


def jsonable(v):
    if isinstance(v, np.ndarray):
        return {"__nd__": v.tolist(), "dtype": str(v.dtype)}
    if isinstance(v, (np.floating, np.integer, np.bool_)):
        return v.item()
    if isinstance(v, (list, tuple)):
        return [jsonable(x) for x in v]
    if isinstance(v, dict):
        return {k: jsonable(x) for k, x in v.items()}
    if isinstance(v, (int, float, str, bool)) or v is None:
        return v
    if hasattr(v, "__verif_repr__"):
        return v.__verif_repr__()
    return {"__repr__": repr(v)[:200]}


def unjson(v):
    if isinstance(v, dict) and "__nd__" in v:
        return np.array(v["__nd__"], dtype=v["dtype"])
    if isinstance(v, dict) and "__history__" in v:
        from contracts import _histories
        return _histories.build(v)
    if isinstance(v, dict) and "__rfa__" in v:
        from contracts import _histories
        return _histories.build_rfa(v)
    if isinstance(v, dict) and "__fn__" in v:
        from contracts import _histories
        return _histories.build_fn(v)
    if isinstance(v, list):
        return [unjson(x) for x in v]
    return v


def call_clause(fn, env):
    import inspect
    names = list(inspect.signature(fn).parameters)
    return fn(*[env[n] for n in names])


def check_once(c, mod, fun, args):
    """returns None or a violation dict"""
    pre = {k: deep_copy(v) for k, v in args.items()}
    live = args
    S._NOW.clear()
    for k in pre:
        S._NOW[id(pre[k])] = live[k]
    exc = None
    result = None
    S._GHOST["normal_calls"] = []
    real_normal = np.random.normal

    def rec_normal(loc=0.0, scale=1.0, size=None):
        r = real_normal(loc, scale, size)
        S._GHOST["normal_calls"].append(dict(loc=loc, scale=deep_copy(scale), size=size, result=r))
        return r
    np.random.normal = rec_normal
    with warnings.catch_warnings():
        warnings.simplefilter("ignore")
        caller_arrays = []
        for k, v in live.items():
            for arr in getattr(v, "__verif_inputs__", ()):
                caller_arrays.append((k, arr, np.array(arr, copy=True)))
        try:
            kw = {k: v for k, v in live.items() if not (c.params and c.params.get(k) is S.Kwargs)}
            for k, v in live.items():
                if c.params and c.params.get(k) is S.Kwargs:
                    kw.update(v)
            result = fun(**kw)
        except Exception as e:      # noqa
            exc = e
        finally:
            np.random.normal = real_normal
    for k, arr, snap in caller_arrays:
        if not same(arr, snap):
            return dict(clause=f"frame::{k}.caller-array", observed="an array handed in by the caller was modified in place")
    if True:
        pass
    env = dict(pre)
    if exc is not None:
        cls = type(exc).__name__
        names = [k.__name__ for k in type(exc).__mro__]
        hit = [e for e in c.raises if e in names]
        if hit:
            ok = bool(call_clause(c.funcs[c.raises[hit[0]]], env))
            if not ok:
                return dict(clause=f"raises-only-if::{hit[0]}:{c.raises[hit[0]]}", observed=f"{cls}: {exc}")
            for k in pre:
                if not same(pre[k], live[k]):
                    return dict(clause=f"frame-on-raise::{hit[0]}:{k}", observed="argument modified by a rejected call")
            return None
        if any(e in names for e in c.raises_only):
            return None
        return dict(clause=f"no-raise::{cls}", observed=f"{cls}: {exc}", trace=traceback.format_exception_only(type(exc), exc)[-1][:300])
    for e, cl in c.raises.items():
        if bool(call_clause(c.funcs[cl], env)):
            return dict(clause=f"raises-if::{e}:{cl}", observed=f"returned normally: {repr(result)[:200]}")
    env["result"] = result
    only = os.environ.get("PYVC_RT_CLAUSES")
    for name in c.ensures:
        if name in c.opts.get("static_only", ()):
            continue
        if only and name in c.opts.get("assumed", {}) and not re.search(only, name):
            continue          # bounded clauses that belong to another property's check
        try:
            ok = bool(call_clause(c.funcs[name], env))
        except Exception as e:      # a clause that cannot be evaluated on the result is a violated clause
            return dict(clause=f"ensures::{name}", observed=f"clause not evaluable on result {repr(result)[:200]}: {type(e).__name__}: {e}")
        if not ok:
            return dict(clause=f"ensures::{name}", observed=repr(result)[:400])
    if not c.opts.get("no_frame"):
        for k in pre:
            if k not in c.modifies and not same(pre[k], live[k]):
                return dict(clause=f"frame::{k}", observed="argument modified")
    # class invariants of modified objects and of the result
    for k, obj in list(live.items()) + [("result", result)]:
        if k != "result" and k not in c.modifies:
            continue
        q = type(obj).__module__ + "." + type(obj).__qualname__
        shape = S.CLASSES.get(q)
        if shape is None or not c.opts.get("class_invariant_exit", True):
            continue
        for inv in shape.invariants:
            try:
                ok = bool(shape.funcs[inv](obj))
            except Exception as e:
                return dict(clause=f"class-inv::{inv}", observed=f"invariant not evaluable: {type(e).__name__}: {e}")
            if not ok:
                return dict(clause=f"class-inv::{inv}", observed=f"{k}: " + repr({a: getattr(obj, a, None) for a in shape.fields})[:300])
    return None


def neighbour_call(c, fun, args, rnd):
    """call `fun` once on deep copies of `args` with one Bool / Int / Real / Str argument changed; returns the changed argument
    (for the replay file) or None when there is nothing to change"""
    cand = [k for k, v in args.items() if isinstance(v, (bool, int, float, str)) and not (c.params and c.params.get(k) is S.Kwargs)]
    if not cand or rnd.random() < 0.25:
        # the same call on equal arguments (deep copies), whose result the caller then overwrites in place
        run_prelude(c, fun, {a: deep_copy(b) for a, b in args.items()})
        return {"__same_call__": True}
    k = rnd.choice(cand)
    v = args[k]
    if isinstance(v, bool):
        nv = not v
    elif isinstance(v, int):
        nv = v + rnd.choice([-1, 1, 2])
    elif isinstance(v, float):
        nv = v + rnd.choice([-0.5, 0.5, 1.0])
    else:
        nv = rnd.choice([s for s in ("closest", "lower", "higher", "trapezoid", "rectangle", "linear", "constant") if s != v])
    pre = {a: deep_copy(b) for a, b in args.items()}
    pre[k] = nv
    run_prelude(c, fun, pre)
    return {k: jsonable(nv)}


def run_prelude(c, fun, pre):
    try:
        with warnings.catch_warnings():
            warnings.simplefilter("ignore")
            kw = {a: b for a, b in pre.items() if not (c.params and c.params.get(a) is S.Kwargs)}
            for a, b in pre.items():
                if c.params and c.params.get(a) is S.Kwargs:
                    kw.update(b)
            scribble(fun(**kw))
    except Exception:      # noqa
        pass


def scribble(r, depth=0):
    """what a caller may do with a result it was given: overwrite the arrays in place.  The prelude ran on its own deep copies, so
    this can reach the checked call only through state the function keeps between calls (a cache handing out its own buffer)"""
    if isinstance(r, np.ndarray):
        try:
            if r.flags.writeable and r.dtype.kind in "fiu" and r.size:
                r *= 2
                r += 1
        except Exception:      # noqa
            pass
    elif isinstance(r, (tuple, list)) and depth < 3:
        for x in r:
            scribble(x, depth + 1)


def search(path, qual, seed, n, out, budget_s=20.0):
    import time
    mod = load_contracts(path)
    c = S.REGISTRY[qual]
    fun = resolve(c.opts.get("rt_target", qual))
    rnd = random.Random(seed)
    gen = getattr(mod, c.opts.get("generator", "") or "", None)
    tried = valid = 0
    known_hits = {}
    t0 = time.time()
    while tried < n and time.time() - t0 < budget_s:
        tried += 1
        try:
            if gen is not None:
                args = gen(rnd)
            else:
                args = {p: gen_value(t, rnd, p) for p, t in c.params.items()}
        except NotImplementedError as e:
            json.dump(dict(status="no-generator", reason=str(e)), open(out, "w"))
            return 2
        try:
            with warnings.catch_warnings():
                warnings.simplefilter("ignore")
                if not all(bool(call_clause(c.funcs[r], args)) for r in c.requires):
                    continue
        except Exception:
            continue
        valid += 1
        saved = {k: jsonable(v) for k, v in args.items()}
        # history: with probability 1/2 a call with NEIGHBOURING arguments (one flag / scalar / string changed, everything else
        # equal) precedes the checked call, on deep copies and with its outcome ignored.  State carried between calls (a memo
        # keyed on too few arguments, a shared buffer handed out and written later) then shows in the checked call.
        prelude = None
        if rnd.random() < 0.5:
            prelude = neighbour_call(c, fun, args, rnd)
        v = check_once(c, mod, fun, args)
        if v is not None and prelude is not None:
            v["preceded_by"] = prelude
        if v is not None:
            k = known_match(qual, v, saved)
            if k is not None:
                known_hits[k] = known_hits.get(k, 0) + 1       # a listed finding: counted, the search goes on
                continue
            json.dump(dict(status="violation", contracts=os.path.abspath(path), function=qual, args=saved, violated=v,
                           seed=seed, tried=tried, valid=valid), open(out, "w"), indent=1)
            return 1
    json.dump(dict(status="none", tried=tried, valid=valid, seed=seed, known_hits=known_hits), open(out, "w"))
    return 0


def known_match(qual, v, saved):
    """index (name) of the committed known finding this violation is an instance of, or None.  An entry names the function
    (regex), the violated clause (regex) and a predicate over the generated input - a different violation is not matched."""
    path = os.environ.get("PYVC_RT_KNOWN")
    if not path or not os.path.exists(path):
        return None
    for k in json.load(open(path)).get("findings", []):
        if k.get("status") != "known" or "match" not in k:
            continue
        if not re.search(k["function"], qual) or not re.search(k["clause"], v["clause"]):
            continue
        try:
            if eval(k["match"], {"args": saved, "r": next((x.get("__rfa__") for x in saved.values() if isinstance(x, dict) and "__rfa__" in x), None)}):
                return k["id"]
        except Exception:
            continue
    return None


def replay(path):
    d = json.load(open(path))
    if d.get("status") != "violation" or "args" not in d:
        print(f"replay file {path} carries no concrete input (obligation: {d.get('obligation')})")
        print(d.get("solver_output", "")[:2000])
        return 0
    mod = load_contracts(d["contracts"])
    c = S.REGISTRY[d["function"]]
    fun = resolve(c.opts.get("rt_target", d["function"]))
    args = {k: unjson(v) for k, v in d["args"].items()}
    pb = (d.get("violated") or {}).get("preceded_by")
    if pb:                     # the recorded history: the neighbouring call first, on its own copies
        pre = {k: unjson(v) for k, v in d["args"].items()}
        pre.update({k: unjson(v) for k, v in pb.items() if k != "__same_call__"})
        run_prelude(c, fun, pre)
        print(f"REPLAY: preceded by a call with {pb}")
    v = check_once(c, mod, fun, args)
    if v is None:
        print("REPLAY: no violation reproduced")
        return 0
    print(f"REPLAY: violation reproduced: {v['clause']}  observed: {v['observed']}")
    return 1


if __name__ == "__main__":
    if sys.argv[1] == "search":
        sys.exit(search(sys.argv[2], sys.argv[3], int(sys.argv[4]), int(sys.argv[5]), sys.argv[6]))
    if sys.argv[1] == "replay":
        sys.exit(replay(sys.argv[2]))
