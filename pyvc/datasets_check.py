"""C18 driver: exhaustive enumeration of the documented dataset names.

For every name in the four shipped description tables (and its '-'/'_' spelling variants, both values of the unpack
flag) `load_dataset` is executed symbolically with that *concrete* name against the contracts of the two generic loading
routines; the ghost events recorded by those contracts give (file | url, checksum, cache slot) per dataset, over which
the distinctness obligations are decided.  The space is finite and enumerated completely."""
import glob
import os
import re

import z3

from .core import *
from .interp import Interp, Frame
from .solve import Rec

BASE = 'traffic_weaver.datasets._base.'


class _Ob:
    def __init__(self, name, clause, ok, detail=""):
        self.name = name
        self.kind = "enumeration"
        self.where = ""
        self.func = BASE + "load_dataset"
        self.clause = clause
        self.status = "trivial" if ok else "sat"
        self.time_ms = 0.0
        self.backend = "concrete symbolic execution"
        self.model = detail
        self.hyps = []

    def key(self):
        # one lock key per clause (not per dataset name): adding a dataset must not invalidate the lock
        return f"{self.func}::{self.kind}::{self.clause}"


def documented_names(src_root):
    d = os.path.join(src_root, "traffic_weaver", "datasets", "data_description")
    out = {}
    for f in sorted(glob.glob(os.path.join(d, "*.md"))):
        names = []
        for line in open(f, encoding="utf-8"):
            m = re.match(r"^\|\s*\d+\s*\|\s*([^|\s]+)\s*\|", line)
            if m:
                names.append(m.group(1))
        out[os.path.basename(f)] = names
    return out


def run_one(db, mods, name, unpack):
    I = Interp(mods, db)
    I.verifying = BASE + "load_dataset#caller"
    st = State()
    st.frame = Frame("traffic_weaver.datasets._base", BASE + "load_dataset#caller")
    found = mods.find_function(BASE + "load_dataset")
    fdef, modname, _ = found
    fv = FunV("def", node=fdef, modname=modname, name=BASE + "load_dataset#inlined", clsqual=None)
    outs = I.call_def(st, fv, [StrV(name)], {"unpack_dataset_columns": BoolN(unpack)}, fdef)
    return outs


def obligations(db, mods, src_root):
    recs = []
    tables = documented_names(src_root)
    total = sum(len(v) for v in tables.values())
    recs.append(_Ob("C18::tables", "description-tables-parsed", total > 0, f"{ {k: len(v) for k, v in tables.items()} }"))
    seen = {}
    per_name = {}
    for table, names in tables.items():
        for name in names:
            variants = sorted({name, name.replace("-", "_"), name.replace("_", "-") if not name.startswith("sandvine") else name})
            for variant in variants:
                for unpack in (False, True):
                    try:
                        outs = run_one(db, mods, variant, unpack)
                    except EngineError as e:
                        recs.append(_Ob(f"C18::reachable[{variant},unpack={unpack}]", "reachable", False, f"engine: {e}"))
                        continue
                    normal = [(s, v) for s, v in outs if not isinstance(v, Exc)]
                    allowed = set(db.get(BASE + "load_csv_dataset_from_remote").raises_only)      # failures of the load itself
                    excs = [(s, v) for s, v in outs if isinstance(v, Exc) and v.cls not in allowed]
                    ok = len(normal) >= 1 and not excs
                    detail = "" if ok else "; ".join(f"{v.cls}: {v.msg}" for s, v in excs) or "no normal outcome"
                    recs.append(_Ob(f"C18::reachable[{variant},unpack={unpack}]", "reachable", ok, detail))
                    if not ok:
                        continue
                    s, v = normal[0]
                    evs = s.ghost.get("events", [])
                    one = len(evs) == 1
                    recs.append(_Ob(f"C18::one-load[{variant},unpack={unpack}]", "exactly-one-load", one, f"{len(evs)} load events"))
                    if not one:
                        continue
                    kind, env = evs[0]
                    shape_ok = isinstance(v, TupV) if unpack else isinstance(v, Ref)
                    recs.append(_Ob(f"C18::shape[{variant},unpack={unpack}]", "unpack-shape", shape_ok, repr(v)))
                    bundled = table == "sandvine.md"
                    recs.append(_Ob(f"C18::kind[{variant}]", "bundled-or-remote", (kind == "resource_load") == bundled, kind))
                    if kind == "resource_load":
                        desc = ("file", env["file_name"].s)
                    else:
                        r = env["remote"]
                        desc = ("remote", r.items[r.fields.index("url")].s, r.items[r.fields.index("checksum")].s,
                                r.items[r.fields.index("filename")].s,
                                os.path.normpath(env["dataset_folder"].s + "/" + env["dataset_filename"].s),      # the file actually used
                                bool(z3.is_true(z3.simplify(env["validate_checksum"].t))))
                    if name in per_name and per_name[name] != desc:
                        recs.append(_Ob(f"C18::variants-agree[{name}]", "spelling-variants-agree", False, f"{per_name[name]} vs {desc}"))
                    per_name[name] = desc
    # distinctness over datasets
    def distinct(label, proj):
        owners = {}
        dup = []
        for n, d in per_name.items():
            k = proj(d)
            if k is None:
                continue
            if k in owners:
                dup.append((owners[k], n, k))
            owners[k] = n
        recs.append(_Ob(f"C18::distinct[{label}]", f"distinct-{label}", not dup, "; ".join(f"{a} and {b} share {k}" for a, b, k in dup)))
    distinct("bundled-file", lambda d: d[1] if d[0] == "file" else None)
    distinct("url", lambda d: d[1] if d[0] == "remote" else None)
    distinct("checksum", lambda d: d[2] if d[0] == "remote" else None)
    distinct("remote-filename", lambda d: d[3] if d[0] == "remote" else None)
    distinct("cache-slot", lambda d: d[4] if d[0] == "remote" else None)
    bad = [n for n, d in per_name.items() if d[0] == "remote" and not d[5]]
    recs.append(_Ob("C18::checksum-validated", "validate-checksum-on", not bad, ", ".join(bad)))
    recs.append(_Ob("C18::count", "all-documented-names-covered", len(per_name) == total, f"{len(per_name)} of {total}"))
    return recs, dict(names=total, tables={k: len(v) for k, v in tables.items()}, remote=sum(1 for d in per_name.values() if d[0] == "remote"),
                      bundled=sum(1 for d in per_name.values() if d[0] == "file"))
