"""Run-time only (bounded stand-in): the README pipeline on the real code, used as `rt_target` of the C02 pipeline contract."""
import numpy as np


def pipeline(x, y, n, strategy, kw, target, periodic):
    """Weaver(x, y)[.append_one_sample(make_periodic=True)].recreate_from_average(n, strategy, **kw).integral_match(target)"""
    import traffic_weaver.rfa as rfa
    from traffic_weaver import Weaver
    w = Weaver(np.array(x, dtype=float), np.array(y, dtype=float))
    if periodic:
        w.append_one_sample(make_periodic=True)
    x0, y0 = (np.array(v, dtype=float) for v in w.get())
    w.recreate_from_average(n, rfa_class=getattr(rfa, strategy), **kw)
    w.integral_match(target_function_integral_method=target)
    x1, y1 = w.get()
    return x0, y0, np.asarray(x1, dtype=float), np.asarray(y1, dtype=float)


def means_preserved(n, target, result):
    """C02: the mean over every original interval (target rule) equals that interval's original average; with the rectangle
    rule block averaging returns the original abscissae exactly and the averages"""
    from traffic_weaver.process import average
    x0, y0, x1, y1 = result
    m = len(x0)
    if len(x1) != (m - 1) * n + 1 or len(y1) != len(x1) or not np.all(np.isfinite(y1)):
        return False
    scale = 1e-9 * (1 + float(np.max(np.abs(y0))))
    for k in range(m - 1):
        xs, ys = x1[k * n:(k + 1) * n + 1], y1[k * n:(k + 1) * n + 1]
        dx = np.diff(xs)
        integral = float(np.sum((ys[:-1] + ys[1:]) / 2 * dx)) if target == 'trapezoid' else float(np.sum(ys[:-1] * dx))
        if abs(integral / (x0[k + 1] - x0[k]) - y0[k]) > scale + 1e-7 * abs(y0[k]):
            return False
    if target == 'rectangle':
        ax, ay = average(x1, y1, n)
        if not np.array_equal(np.asarray(ax)[:m - 1], x0[:m - 1]):
            return False
        if not np.allclose(np.asarray(ay)[:m - 1], y0[:m - 1], rtol=1e-7, atol=scale):
            return False
    return True


def gen_pipeline(rnd):
    from contracts._histories import gen_rfa_recipe
    cls = rnd.choice(["PiecewiseConstantRFA", "CubicSplineRFA", "LinearFixedRFA", "LinearAdaptiveRFA", "ExpFixedRFA", "ExpAdaptiveRFA"])
    r = gen_rfa_recipe(rnd, cls)["__rfa__"]
    x, y = list(r["x"]), list(r["y"])
    if rnd.random() < 0.15:
        # a bundled dataset (first points), as the README does
        try:
            from traffic_weaver.datasets import load_dataset
            import traffic_weaver.datasets._datasets as DS
            names = sorted(k[len("load_"):] for k in dir(DS) if k.startswith("load_sandvine_"))
            d = load_dataset(rnd.choice(names))
            k = rnd.randint(3, min(12, len(d)))
            x, y = [float(v) for v in d[:k, 0]], [float(v) for v in d[:k, 1]]
        except Exception:
            pass
    if len(x) < 3:
        x = x + [x[-1] + 1.0]
        y = y + [y[-1] + 1.0]
    if rnd.random() < 0.2:
        s = rnd.choice([1e-9, 1e-6, 1e3, 1e6])
        y = [v * s for v in y]
    if rnd.random() < 0.1:
        x = [v * 1e-6 for v in x]
    elif rnd.random() < 0.2:
        # time axes of real measurements: UNIX-epoch seconds with 5-minute (or hourly) bins - large |x| relative to the step
        step = rnd.choice([300.0, 3600.0])
        x = [1.7e9 + step * v for v in x]
    kw = {k: v for k, v in r["kw"].items() if k != "sampling_function_supplier"}
    if "exp" in kw and kw["exp"] < 0.2:
        kw["exp"] = 2.0
    return dict(x=x, y=y, n=r["n"], strategy=cls, kw=kw, target=rnd.choice(["trapezoid", "rectangle"]), periodic=rnd.random() < 0.3)
