"""Values, heap, state and obligations of the pyvc symbolic executor."""
import itertools
import z3


class EngineError(Exception):
    """Unsupported construct / internal limitation -> checker error (exit 3)."""


class Unbound(EngineError):
    """An annotation (invariant) mentions a name that cannot be bound to the code."""


_ids = itertools.count(1)


def fresh_id():
    return next(_ids)


_names = itertools.count(1)
_NAMED = {}


def fresh_name(base):
    return f"{base}!{next(_names)}"


def reset_fresh():
    """deterministic naming: every function is verified from the same counter state, so that its verification conditions are
    textually identical from run to run (needed for the committed proof cache)"""
    global _names, _ids
    _names = itertools.count(1)
    _ids = itertools.count(1)
    _NAMED.clear()


# ------------------------------------------------------------------ values


class V:
    pass


class Num(V):
    __slots__ = ("t", "kind")

    def __init__(self, t, kind):
        self.t = t
        self.kind = kind  # 'int' | 'real' | 'bool'

    def __repr__(self):
        return f"Num<{self.kind}:{self.t}>"


def IntN(i):
    return Num(z3.IntVal(i), "int")


def RealN(r):
    return Num(z3.RealVal(r), "real")


def BoolN(b):
    return Num(z3.BoolVal(bool(b)), "bool")


class NoneV(V):
    def __repr__(self):
        return "None"


NONE = NoneV()


class OptV(V):
    """None-or-number (result of next(it, None))."""
    __slots__ = ("isnone", "val")

    def __init__(self, isnone, val):
        self.isnone = isnone
        self.val = val

    def __repr__(self):
        return f"Opt<{self.isnone}?{self.val}>"


class StrV(V):
    """Python str: concrete (python str) or symbolic (z3 String term)."""
    __slots__ = ("s",)

    def __init__(self, s):
        self.s = s

    @property
    def concrete(self):
        return isinstance(self.s, str)

    def term(self):
        return z3.StringVal(self.s) if isinstance(self.s, str) else self.s

    def __repr__(self):
        return f"Str<{self.s!r}>"


class TupV(V):
    __slots__ = ("items",)

    def __init__(self, items):
        self.items = list(items)

    def __repr__(self):
        return f"Tup{self.items}"


class NamedTupV(TupV):
    """collections.namedtuple instance"""
    __slots__ = ("fields", "tname")

    def __init__(self, tname, fields, items):
        TupV.__init__(self, items)
        self.fields = list(fields)
        self.tname = tname

    def __repr__(self):
        return f"{self.tname}{dict(zip(self.fields, self.items))}"


class Ref(V):
    __slots__ = ("id",)

    def __init__(self, id):
        self.id = id

    def __repr__(self):
        return f"Ref#{self.id}"


class FunV(V):
    """Callable value."""

    def __init__(self, kind, **kw):
        self.kind = kind  # 'def' | 'lambda' | 'uninterp' | 'lib' | 'class' | 'bound' | 'libbound'
        self.__dict__.update(kw)

    def __repr__(self):
        return f"Fun<{self.kind}:{getattr(self, 'name', '')}>"


class ModV(V):
    def __init__(self, name):
        self.name = name

    def __repr__(self):
        return f"Mod<{self.name}>"


class DictV(V):
    """Concrete-key dictionary (kwargs)."""

    def __init__(self, d, opaque=False):
        self.d = dict(d)
        self.opaque = opaque   # opaque **kwargs of unknown content

    def __repr__(self):
        return f"Dict{self.d}{'+opaque' if self.opaque else ''}"


class AnyV(V):
    """Opaque value of unknown structure (only passed around / compared by identity)."""

    def __init__(self, tag):
        self.tag = tag

    def __repr__(self):
        return f"Any<{self.tag}>"


class Exc(V):
    """Exceptional outcome marker."""

    def __init__(self, cls, msg="", where=None):
        self.cls = cls
        self.msg = msg
        self.where = where

    def __repr__(self):
        return f"Exc<{self.cls}@{self.where}>"


# ------------------------------------------------------------ heap objects (immutable)


class SeqVal:
    """1-D sequence (ndarray / list).  `elem(i)` maps a z3 Int term to a value."""

    def __init__(self, kind, dtype, length, elem, is_nd=None, is_f64=None, items=None, nanmask=None):
        self.kind = kind            # 'ndarray' | 'list'
        self.dtype = dtype          # 'real' | 'int' | 'bool' | 'obj'
        self.length = length if z3.is_expr(length) else z3.IntVal(length)
        self.elem = elem
        self.is_nd = is_nd if is_nd is not None else (kind == "ndarray")
        self.is_f64 = is_f64 if is_f64 is not None else (kind == "ndarray" and dtype == "real")
        self.items = items          # python list of values when the structure is concrete
        self.nanmask = nanmask      # optional: i -> z3 Bool "element is NaN"

    def conc_len(self):
        l = z3.simplify(self.length)
        return l.as_long() if z3.is_int_value(l) else None


class Seq2Val:
    """2-D ndarray."""

    def __init__(self, dtype, rows, cols, elem2, nanmask2=None):
        self.kind = "ndarray"
        self.dtype = dtype
        self.rows = rows if z3.is_expr(rows) else z3.IntVal(rows)
        self.cols = cols if z3.is_expr(cols) else z3.IntVal(cols)
        self.elem2 = elem2
        self.nanmask2 = nanmask2


class ViewVal:
    """1-D ndarray view: element i is element idxmap(i) of the base buffer.
    idxmap returns an Int term (1-D base) or a pair of Int terms (2-D base)."""

    def __init__(self, base, length, idxmap, dtype):
        self.base = base            # heap id of the base buffer (SeqVal / Seq2Val)
        self.length = length if z3.is_expr(length) else z3.IntVal(length)
        self.idxmap = idxmap
        self.dtype = dtype
        self.kind = "ndarray"


class ObjVal:
    def __init__(self, cls, fields):
        self.cls = cls
        self.fields = dict(fields)


class IterVal:
    def __init__(self, seq, pos):
        self.seq = seq              # Ref to a sequence
        self.pos = pos              # z3 Int term


# ------------------------------------------------------------------ state


class State:
    def __init__(self):
        self.env = {}
        self.heap = {}
        self.pc = []
        self.ghost = {}
        self.heap0 = None
        self.env0 = None

    def fork(self):
        s = State()
        s.env = dict(self.env)
        s.heap = dict(self.heap)
        s.pc = list(self.pc)
        s.ghost = {k: list(v) if isinstance(v, list) else (dict(v) if isinstance(v, dict) else v)
                   for k, v in self.ghost.items()}
        s.heap0 = self.heap0
        s.env0 = self.env0
        return s

    def assume(self, f):
        if z3.is_true(f):
            return
        if z3.is_and(f):
            for c in f.children():
                self.assume(c)
            return
        self.pc.append(f)

    def alloc(self, obj):
        i = fresh_id()
        self.heap[i] = obj
        return Ref(i)


class Obligation:
    def __init__(self, name, hyps, goal, kind, where="", func="", clause=""):
        self.name = name
        self.hyps = list(hyps)
        self.goal = goal
        self.kind = kind
        self.where = where
        self.func = func
        self.clause = clause
        self.status = None
        self.time_ms = None
        self.backend = None
        self.model = None

    def key(self):
        return f"{self.func}::{self.kind}::{self.clause}"


# --------------------------------------------------------------- z3 helpers


def simp(t):
    return z3.simplify(t)


def is_true(t):
    return z3.is_true(z3.simplify(t))


def is_false(t):
    return z3.is_false(z3.simplify(t))


def to_real(n):
    if isinstance(n, OptV):
        n = n.val
    if n.kind == "real":
        return n.t
    if n.kind == "int":
        return z3.ToReal(n.t)
    if n.kind == "bool":
        return z3.If(n.t, z3.RealVal(1), z3.RealVal(0))
    raise EngineError(f"to_real {n}")


def to_int(n):
    if isinstance(n, OptV):
        n = n.val
    if n.kind == "int":
        return n.t
    if n.kind == "bool":
        return z3.If(n.t, z3.IntVal(1), z3.IntVal(0))
    raise EngineError(f"expected an integer value, got {n}")


def conc_int(t):
    t = z3.simplify(t)
    if z3.is_int_value(t):
        return t.as_long()
    return None


def trunc_real(r):
    """int(r) for a real term: truncation toward zero."""
    return z3.If(r >= 0, z3.ToInt(r), -z3.ToInt(-r))


# uninterpreted symbols shared by the whole run
POW = z3.Function("POW", z3.RealSort(), z3.RealSort(), z3.RealSort())
ARR = z3.ArraySort(z3.IntSort(), z3.RealSort())
IARR = z3.ArraySort(z3.IntSort(), z3.IntSort())
SUM = z3.Function("SUM", ARR, z3.IntSort(), z3.IntSort(), z3.RealSort())
MEAN = z3.Function("MEAN", ARR, z3.IntSort(), z3.RealSort())
STD = z3.Function("STD", ARR, z3.IntSort(), z3.RealSort())


def pow_axioms(mono=False):
    """facts about real powers of non-negative bases the proofs may use.  P5 (monotone in the base, binary trigger: quadratic
    number of instances) is only included for functions whose contract asks for it (lemmas=['POW_MONO'])."""
    r, s, a = z3.Reals("pr ps pa")
    P = POW
    ax = [
        z3.ForAll([a], P(1, a) == 1, patterns=[P(1, a)]),                                   # P1
        z3.ForAll([a], z3.Implies(a > 0, P(0, a) == 0), patterns=[P(0, a)]),                # P2
        z3.ForAll([r, a], z3.Implies(r >= 0, P(r, a) >= 0), patterns=[P(r, a)]),            # P3
        z3.ForAll([r, a], z3.Implies(z3.And(r >= 0, r < 1, a > 0), P(r, a) < 1), patterns=[P(r, a)]),  # P4
        z3.ForAll([r, s, a], z3.Implies(z3.And(0 <= r, r <= s, a >= 0), P(r, a) <= P(s, a)),
                  patterns=[z3.MultiPattern(P(r, a), P(s, a))]),                           # P5
        z3.ForAll([r], P(r, 1) == r, patterns=[P(r, 1)]),                                   # P6
        z3.ForAll([r, a], z3.Implies(z3.And(0 <= r, r <= 1, a >= 1), P(r, a) <= r), patterns=[P(r, a)]),  # P7
        z3.ForAll([r, a], z3.Implies(z3.And(r > 0), P(r, a) > 0), patterns=[P(r, a)]),      # P8 positivity
    ]
    if not mono:
        del ax[4]
    return ax


def sum_axioms_nonrecursive():
    """what ordinary obligations may use about SUM: the empty sum and the one-element sum (both consequences of the two
    defining axioms).  The recursive unfolding axiom is a matching loop for symbolic bounds, so it is only given to the
    induction proofs of the lemma library; functions use SUM through lemma applications."""
    A = z3.Const("sA", ARR)
    lo, hi = z3.Ints("slo shi")
    return [
        z3.ForAll([A, lo, hi], z3.Implies(hi <= lo, SUM(A, lo, hi) == 0), patterns=[SUM(A, lo, hi)]),
        z3.ForAll([A, lo, hi], z3.Implies(hi == lo + 1, SUM(A, lo, hi) == A[lo]), patterns=[SUM(A, lo, hi)]),
    ]


def sum_axioms():
    A = z3.Const("sA", ARR)
    lo, hi = z3.Ints("slo shi")
    return [
        z3.ForAll([A, lo, hi], z3.Implies(hi <= lo, SUM(A, lo, hi) == 0), patterns=[SUM(A, lo, hi)]),
        z3.ForAll([A, lo, hi], z3.Implies(hi > lo, SUM(A, lo, hi) == SUM(A, lo, hi - 1) + A[hi - 1]),
                  patterns=[SUM(A, lo, hi)]),
    ]


def forall_pat(vs, body, patterns):
    """ForAll with explicit patterns when z3 accepts them, auto-patterns otherwise"""
    try:
        return z3.ForAll(vs, body, patterns=patterns)
    except z3.Z3Exception:
        return z3.ForAll(vs, body)


_KCANON = z3.Int("k!canon")


def named_array(elem_real):
    """z3 Array term equal to `lambda k: elem_real(k)`: returns (A, defining axiom or None).
    Structurally equal definitions share one constant, so equal sequences give equal SUM terms."""
    body = z3.simplify(elem_real(_KCANON))
    if z3.is_app(body) and body.decl().kind() == z3.Z3_OP_SELECT:
        arr, idx = body.children()
        if idx.get_id() == _KCANON.get_id() and z3.is_const(arr) and arr.sort() == ARR:
            return arr, None
    key = body.sexpr()
    if key not in _NAMED:
        A = z3.Const(fresh_name("sumarg"), ARR)
        k = z3.Int(fresh_name("k"))
        ax = z3.ForAll([k], A[k] == z3.substitute(body, (_KCANON, k)), patterns=[A[k]])
        _NAMED[key] = (A, ax)
    return _NAMED[key]


MINF = z3.Function("MINF", ARR, z3.IntSort(), z3.RealSort())
MAXF = z3.Function("MAXF", ARR, z3.IntSort(), z3.RealSort())
ARGMIN = z3.Function("ARGMIN", ARR, z3.IntSort(), z3.IntSort())
ARGMAX = z3.Function("ARGMAX", ARR, z3.IntSort(), z3.IntSort())


def extreme_axioms(A, n, is_min):
    """min/max of A[0:n) for n >= 1: a bound for every element and attained at ARGMIN/ARGMAX"""
    i = z3.Int(fresh_name("i"))
    F, G = (MINF, ARGMIN) if is_min else (MAXF, ARGMAX)
    m, w = F(A, n), G(A, n)
    return [z3.Implies(n >= 1, z3.And(w >= 0, w < n, A[w] == m)),
            z3.ForAll([i], z3.Implies(z3.And(i >= 0, i < n), m <= A[i] if is_min else m >= A[i]), patterns=[A[i]])]

IDXOF = z3.Function("IDXOF", ARR, z3.IntSort(), z3.RealSort(), z3.IntSort())

NEAR = z3.Function("NEAR", ARR, z3.IntSort(), z3.RealSort(), z3.IntSort(), z3.IntSort())   # (x, len, value, strategy code) -> index


def ReplaceAll(s, a, b):
    """str.replace_all (SMT-LIB) - z3py has no wrapper"""
    ctx = s.ctx
    return z3.SeqRef(z3.Z3_mk_seq_replace_all(ctx.ref(), s.as_ast(), a.as_ast(), b.as_ast()), ctx)

IDENT = z3.Function("IDENT", z3.IntSort(), z3.IntSort())      # opaque identity on integers: controls how index terms are matched


def ident_axiom():
    t = z3.Int("idt")
    return z3.ForAll([t], IDENT(t) == t, patterns=[IDENT(t)])
